"""Single source of the closed-model families: constants of spec/MC_<family>.tla/.cfg and the matching world
configuration of the Go harness (used when TLC-generated schedules are replayed on the real keeper).
Run tools/gen_mc.py after editing."""
ONE = 10**18
def D(x):  # decimal string -> raw Dec
    from fractions import Fraction
    return str(int(Fraction(x) * ONE))

FAMILIES = {
  "unbond": dict(
    doc="packings of undelegations of one delegator over validators and denoms, slashes and end-blocks around the completion time (C01 C02 C07 C08 C17 C20)",
    props=["C01", "C02", "C07", "C08", "C17", "C20"],
    vals=["v0", "v1"], dels=["d0"], assets={"ast0": dict(weight="1", take="0"), "ast1": dict(weight="1", take="0")},
    amounts=["3"], fractions=["0.5"], gaps=[1, 2], accrue=[], unbonding=2, interval=5,
    actions=["EndBlock", "Delegate", "Undelegate", "SlashHook"],
    quick=dict(depth=5, blocks=2), thorough=dict(depth=7, blocks=3), sim=dict(depth=24, blocks=8),
  ),
  "redeleg": dict(
    doc="chains A->B->C, fan-in, repeated A->B in one block, full balance, slashes of sources and destinations, end-blocks around maturity (C07 C08 C15 C05)",
    props=["C07", "C08", "C15", "C05"],
    vals=["v0", "v1", "v2"], dels=["d0"], assets={"ast0": dict(weight="1", take="0")},
    amounts=["4"], fractions=["0.5", "1"], gaps=[1, 2], accrue=[], unbonding=2, interval=5,
    actions=["EndBlock", "Delegate", "Redelegate", "Undelegate", "SlashHook"],
    quick=dict(depth=5, blocks=2), thorough=dict(depth=7, blocks=3), sim=dict(depth=24, blocks=8),
  ),
  "shares": dict(
    doc="share ledger under delegate/undelegate/redelegate with dust amounts, slashes 1/3, 1/2, 1 and a 50% take rate (C03 C04 C05 C06)",
    props=["C03", "C04", "C05", "C06"],
    vals=["v0", "v1"], dels=["d0", "d1"], assets={"ast0": dict(weight="1", take="0.5")},
    amounts=["1", "3"], fractions=["0.333333333333333333", "1"], gaps=[1, 3], accrue=[], unbonding=2, interval=2,
    actions=["EndBlock", "Delegate", "Undelegate", "Redelegate", "SlashHook"],
    quick=dict(depth=4, blocks=2), thorough=dict(depth=6, blocks=3), sim=dict(depth=30, blocks=10),
  ),
  "takerate": dict(
    doc="take-rate clock: sub-interval, exact, multi-interval gaps, deposits between deductions, dust totals (C09 C01 C14)",
    props=["C09", "C01", "C14"],
    vals=["v0"], dels=["d0"], assets={"ast0": dict(weight="1", take="0.5", rate="0.5", chgInt=3, wmin="0.2"), "ast1": dict(weight="0.5", take="0.1")},
    amounts=["1", "10"], fractions=[], gaps=[1, 2, 3, 7], accrue=[], unbonding=1, interval=2,
    actions=["EndBlock", "Delegate", "Undelegate"],
    quick=dict(depth=5, blocks=3), thorough=dict(depth=8, blocks=4), sim=dict(depth=40, blocks=16),
  ),
  "rewards": dict(
    doc="reward allocation, claims in every order, stake changes between accrual and claim, weight decay, two delegators on two validators (C12 C13 C14 C05)",
    props=["C12", "C13", "C14", "C05"],
    vals=["v0", "v1"], dels=["d0", "d1"], assets={"ast0": dict(weight="1", take="0", rate="0.5", chgInt=2, wmin="0.1"), "ast1": dict(weight="0.5", take="0")},
    amounts=["5"], fractions=[], gaps=[1, 2], accrue=[{"stake": "7"}, {"rwd": "1000000"}], unbonding=1, interval=5,
    actions=["EndBlock", "Delegate", "Undelegate", "Redelegate", "Claim", "Accrue"],
    quick=dict(depth=4, blocks=2), thorough=dict(depth=6, blocks=3), sim=dict(depth=30, blocks=10),
  ),
  "genesis": dict(
    doc="export/re-import at block boundaries with pending unbondings and redelegations in shared buckets (C18)",
    props=["C18"],
    vals=["v0", "v1"], dels=["d0"], assets={"ast0": dict(weight="1", take="0"), "ast1": dict(weight="1", take="0", start=4)},
    amounts=["3"], fractions=["0.5"], gaps=[1, 3], accrue=[], unbonding=2, interval=5,
    actions=["EndBlock", "Delegate", "Undelegate", "Redelegate", "SlashHook", "ExportImport"],
    quick=dict(depth=5, blocks=3), thorough=dict(depth=7, blocks=4), sim=dict(depth=24, blocks=8),
  ),
  "power": dict(
    doc="voting power: alliance operations mixed with native (un)delegations and validators leaving/entering the bonded set, one asset in warm-up (C10 C11)",
    props=["C10", "C11"],
    vals=["v0", "v1"], dels=["d0"], assets={"ast0": dict(weight="0.5", take="0"), "ast1": dict(weight="1", take="0", start=3)},
    amounts=["1000"], fractions=["0.5"], gaps=[1, 2], accrue=[], unbonding=2, interval=5,
    actions=["EndBlock", "Delegate", "Undelegate", "SlashHook", "Native"], native=["1000000"],
    quick=dict(depth=5, blocks=3), thorough=dict(depth=7, blocks=4), sim=None,
  ),
  "lifecycle": dict(
    doc="validator life cycle: leaving and re-entering the bonded set and removal by x/staking once nothing is staked on it (possible while only warm-up stake is delegated to it: K13), mixed with alliance operations (C03 C05 C10 C12 C20)",
    props=["C03", "C05", "C10", "C12", "C20"],
    vals=["v0", "v1"], dels=["d0"], assets={"ast0": dict(weight="0.5", take="0"), "ast1": dict(weight="1", take="0", start=4)},
    amounts=["1000"], fractions=[], gaps=[1, 3], accrue=[], unbonding=2, interval=5,
    actions=["EndBlock", "Delegate", "Undelegate", "Claim", "Native", "Remove"], native=[],
    quick=dict(depth=6, blocks=3), thorough=dict(depth=8, blocks=4), sim=None,
  ),
  "govweight": dict(
    doc="governance changes reward weights (up, down, to zero) and switches decay on while rewards are pending in the distribution module or already indexed: a change affects only rewards received afterwards (C14 C12 C13)",
    props=["C14", "C12", "C13"],
    vals=["v0"], dels=["d0", "d1"], assets={"ast0": dict(weight="1", take="0"), "ast1": dict(weight="0.5", take="0")},
    amounts=["5"], fractions=[], gaps=[1, 2], accrue=[{"stake": "7"}], unbonding=1, interval=5,
    actions=["EndBlock", "Delegate", "Claim", "Accrue", "Gov"],
    prefix=[dict(ev="BeginBlock", dt=1), dict(ev="Delegate", d="d0", v="v0", a="ast0", x="5"), dict(ev="Delegate", d="d1", v="v0", a="ast1", x="5"),
            dict(ev="EndBlock"), dict(ev="BeginBlock", dt=1)],
    gov_custom=[dict(a="ast0", weight="2"), dict(a="ast0", weight="0"), dict(a="ast1", weight="1"), dict(a="ast1", weight="0.5", rate="0.5", chgInt="1", wmin="0.1")],
    quick=dict(depth=5, blocks=2), thorough=dict(depth=6, blocks=3), sim=dict(depth=24, blocks=8),
  ),
  "gov": dict(
    doc="governance decision table: field classes x signer x asset state for create/update/delete/params, then end-of-block with the accepted parameters (C16 C17)",
    props=["C16", "C17"],
    vals=["v0"], dels=["d0"], assets={"ast0": dict(weight="1", take="0.5")},
    amounts=["4"], fractions=[], gaps=[1, 3], accrue=[], unbonding=1, interval=2,
    actions=["EndBlock", "Delegate", "Gov"], gov=True,
    quick=dict(depth=3, blocks=2), thorough=dict(depth=4, blocks=2), sim=dict(depth=16, blocks=5),
  ),
}
