package harness

import (
	"encoding/json"
	"flag"
	"fmt"
	"hash/fnv"
	"math/rand"
	"os"
	"path/filepath"
	"testing"
)

var (
	fMode   = flag.String("mode", "random", "random | replay")
	fFamily = flag.String("family", "full", "family of the random driver")
	fSeed   = flag.Int64("seed", 1, "seed")
	fN      = flag.Int("n", 4, "number of traces")
	fSteps  = flag.Int("steps", 60, "events per trace")
	fOut    = flag.String("out", "", "output directory")
	fIn     = flag.String("in", "", "schedule file (json: one schedule or a list) for replay")
	fBig    = flag.Int("big", 2, "every k-th random trace uses amounts up to 10^30 (0 = never)")
	fShard  = flag.Int("shard", 0, "shard index (trace file names)")
	fDet    = flag.Int("det", 0, "replay every step this many times on sibling branches and compare stores, results and events")
)

func TestDrive(t *testing.T) {
	if *fOut == "" {
		t.Skip("no -out")
	}
	must(os.MkdirAll(*fOut, 0o755))
	switch *fMode {
	case "random":
		tw := NewTraceWriter(filepath.Join(*fOut, fmt.Sprintf("%s-%d-%d.ndjson", *fFamily, *fSeed, *fShard)))
		var scheds []Schedule
		for i := 0; i < *fN; i++ {
			// the stream depends on the family too: families whose generators start alike must not replay each other's opening
			fh := fnv.New32a()
			fh.Write([]byte(*fFamily))
			seed := *fSeed*1_000_003 + int64(*fShard)*10_007 + int64(i) + int64(fh.Sum32()%99_991)*1_000_000_007
			r := rand.New(rand.NewSource(seed))
			big := *fBig > 0 && i%*fBig == *fBig-1
			// two of three rewards histories stay clear of the root causes of the known reward findings (slashes under
			// accrued rewards, 18-digit resolution at huge stakes, take-rate deductions) so that C12/C13 are judged unmasked
			clean := *fFamily == "rewards" && i%3 != 2
			if clean {
				big = false
			}
			cfg := DefaultCfg(r, *fFamily, big, clean)
			w := NewWorld(t, cfg)
			pn, every := familyProbes(*fFamily)
			s := Schedule{Name: fmt.Sprintf("%s/seed%d/shard%d/%d", *fFamily, *fSeed, *fShard, i), Family: *fFamily, Cfg: cfg, Probes: pn, Every: every, Det: *fDet}
			g := &Gen{w: w, r: r, family: *fFamily, big: big, clean: clean}
			RunSchedule(w, &s, tw, g, *fSteps)
			scheds = append(scheds, s)
		}
		tw.Close()
		bz, err := json.Marshal(scheds)
		must(err)
		must(os.WriteFile(filepath.Join(*fOut, fmt.Sprintf("%s-%d-%d.sched.json", *fFamily, *fSeed, *fShard)), bz, 0o644))
	case "replay":
		bz, err := os.ReadFile(*fIn)
		must(err)
		var scheds []Schedule
		if err := json.Unmarshal(bz, &scheds); err != nil {
			var one Schedule
			must(json.Unmarshal(bz, &one))
			scheds = []Schedule{one}
		}
		tw := NewTraceWriter(filepath.Join(*fOut, fmt.Sprintf("replay-%d.ndjson", *fShard)))
		for i := range scheds {
			w := NewWorld(t, scheds[i].Cfg)
			RunSchedule(w, &scheds[i], tw, nil, 0)
		}
		tw.Close()
	default:
		t.Fatalf("unknown mode %s", *fMode)
	}
}
