package harness

// events.go — the action alphabet and its execution on the real application.
// User and governance messages are atomic (executed on a CacheContext that is written only on success,
// panics recovered as failures — base-app semantics). Staking callbacks and end-of-block are NOT atomic:
// they run directly on the block context, as in production.

import (
	"bytes"
	"crypto/sha256"
	"encoding/hex"
	"fmt"
	"sort"
	"time"

	"cosmossdk.io/math"
	"github.com/cosmos/cosmos-sdk/runtime"
	sdk "github.com/cosmos/cosmos-sdk/types"
	authtypes "github.com/cosmos/cosmos-sdk/x/auth/types"
	distrtypes "github.com/cosmos/cosmos-sdk/x/distribution/types"
	govv1beta1 "github.com/cosmos/cosmos-sdk/x/gov/types/v1beta1"
	stakingtypes "github.com/cosmos/cosmos-sdk/x/staking/types"

	"github.com/terra-money/alliance/x/alliance"
	"github.com/terra-money/alliance/x/alliance/types"
)

type Event struct {
	Ev     string `json:"ev"`
	D      string `json:"d"`
	V      string `json:"v"`
	Src    string `json:"src"`
	Dst    string `json:"dst"`
	A      string `json:"a"`
	X      string `json:"x"`
	F      string `json:"f"` // slash fraction, Dec raw (10^18-scaled)
	Dt     int64  `json:"dt"`
	Jail   bool   `json:"jail"`
	Coins  []Amt  `json:"coins"`
	Signer string `json:"signer"` // "authority" | "other" | "bad"
	Legacy bool   `json:"legacy"` // route through the legacy proposal handler
	// governance fields (Dec raw strings; "nil" = nil Dec)
	Weight string `json:"weight"`
	WMin   string `json:"wmin"`
	WMax   string `json:"wmax"`
	Take   string `json:"take"`
	Rate   string `json:"rate"`
	ChgInt int64  `json:"chgInt"`
	// params
	Delay    int64 `json:"delay"`
	Interval int64 `json:"interval"`
	Last     int64 `json:"last"`
	// Branch: execute on a discarded branch of the current state (the trace does not advance)
	Branch bool `json:"branch"`
}

type Result struct {
	Ok    bool   `json:"ok"`
	Err   string `json:"err"`
	ErrC  string `json:"errc"`
	Panic bool   `json:"panic"`
	// RealSlash: the fraction x/staking passed to the hook, and what it burned
	Feff   string `json:"feff"`
	Burned string `json:"burned"`
	// EndBlock: staking part / alliance part
	StakingErr string `json:"stakingErr"`
	// ExportImport: second export identical to the first
	Same bool `json:"same"`
	// Direct hook call: the error the hook returned (x/staking would only log it)
	HookErr string `json:"hookErr"`
	// Determinism: number of sibling replays of this step and whether all of them produced byte-identical stores,
	// results and events
	DetN    int    `json:"detn"`
	Det     bool   `json:"det"`
	DetDiff string `json:"detDiff"`
}

func decRaw(s string) math.LegacyDec {
	if s == "nil" || s == "" {
		return math.LegacyDec{}
	}
	i, ok := math.NewIntFromString(s)
	if !ok {
		panic("bad dec raw " + s)
	}
	return math.LegacyNewDecFromBigIntWithPrec(i.BigInt(), 18)
}

func (w *World) atomic(fn func(ctx sdk.Context) error) (res Result) {
	cctx, write := w.Ctx.CacheContext()
	defer func() {
		if r := recover(); r != nil {
			res = Result{Ok: false, Panic: true, Err: fmt.Sprint(r)}
		}
	}()
	if err := fn(cctx); err != nil {
		return Result{Err: err.Error()}
	}
	write()
	return Result{Ok: true}
}

func (w *World) direct(fn func(ctx sdk.Context) error) (res Result) {
	defer func() {
		if r := recover(); r != nil {
			res = Result{Ok: false, Panic: true, Err: fmt.Sprint(r)}
		}
	}()
	if err := fn(w.Ctx); err != nil {
		return Result{Err: err.Error()}
	}
	return Result{Ok: true}
}

func (w *World) signer(s string) string {
	switch s {
	case "authority", "":
		return w.App.AllianceKeeper.GetAuthority()
	case "other":
		return w.Dels[0].String()
	case "module":
		return authtypes.NewModuleAddress(types.ModuleName).String()
	default:
		return "not-an-address"
	}
}

// Exec runs one event on the world and returns its result. It never panics for reasons inside the code under test.
// resolve replaces the symbolic amount "bal" of an Undelegate / Redelegate by the balance the module reports for that
// position right now, so that the recorded event carries the concrete amount
func (w *World) resolve(e Event) Event {
	if e.X != "bal" || (e.Ev != "Undelegate" && e.Ev != "Redelegate") {
		return e
	}
	v := e.V
	if e.Ev == "Redelegate" {
		v = e.Src
	}
	e.X = "1"
	for _, p := range w.positions(w.Ctx) {
		if w.Name(p.d.String()) == e.D && w.Name(p.v.String()) == v && p.a == e.A && p.balOk && p.bal.IsPositive() {
			e.X = p.bal.String()
		}
	}
	return e
}

// valOrGhost maps a name that is not a validator of this world to a well-formed address no validator has
func (w *World) valOrGhost(n string) sdk.ValAddress {
	if v, ok := w.ValByName(n); ok {
		return v
	}
	return sdk.ValAddress([]byte("no-such-validator-00"))
}

func (w *World) Exec(e Event) Result {
	r := w.exec(e)
	r.ErrC = errClass(r.Err)
	return r
}

func (w *World) exec(e Event) Result {
	k := w.App.AllianceKeeper
	sk := w.App.StakingKeeper
	switch e.Ev {
	case "BeginBlock":
		w.Ctx = w.Ctx.WithBlockTime(w.Ctx.BlockTime().Add(secs(e.Dt))).WithBlockHeight(w.Ctx.BlockHeight() + 1)
		return Result{Ok: true}

	case "StakingEndBlock":
		// order of app.go: x/staking's end-blocker runs before x/alliance's (which is last)
		return w.direct(func(ctx sdk.Context) error {
			_, err := sk.EndBlocker(ctx)
			return err
		})
	case "EndBlock":
		return w.direct(func(ctx sdk.Context) error { return alliance.EndBlocker(ctx, k) })

	case "Delegate":
		d, _ := w.DelByName(e.D)
		v := w.valOrGhost(e.V)
		return w.atomic(func(ctx sdk.Context) error {
			_, err := w.MS.Delegate(ctx, types.NewMsgDelegate(d.String(), v.String(), sdk.NewCoin(e.A, mustInt(e.X))))
			return err
		})
	case "Undelegate":
		d, _ := w.DelByName(e.D)
		v := w.valOrGhost(e.V)
		return w.atomic(func(ctx sdk.Context) error {
			_, err := w.MS.Undelegate(ctx, types.NewMsgUndelegate(d.String(), v.String(), sdk.NewCoin(e.A, mustInt(e.X))))
			return err
		})
	case "Redelegate":
		d, _ := w.DelByName(e.D)
		s := w.valOrGhost(e.Src)
		t := w.valOrGhost(e.Dst)
		return w.atomic(func(ctx sdk.Context) error {
			_, err := w.MS.Redelegate(ctx, types.NewMsgRedelegate(d.String(), s.String(), t.String(), sdk.NewCoin(e.A, mustInt(e.X))))
			return err
		})
	case "Claim":
		d, _ := w.DelByName(e.D)
		v := w.valOrGhost(e.V)
		return w.atomic(func(ctx sdk.Context) error {
			_, err := w.MS.ClaimDelegationRewards(ctx, types.NewMsgClaimDelegationRewards(d.String(), v.String(), e.A))
			return err
		})

	case "SlashHook":
		v, _ := w.ValByName(e.V)
		r := w.direct(func(ctx sdk.Context) error {
			return k.StakingHooks().BeforeValidatorSlashed(ctx, v, decRaw(e.F))
		})
		r.HookErr = r.Err
		return r

	case "RealSlash":
		i := w.ValIndex(e.V)
		va := w.Vals[i]
		val, err := sk.GetValidator(w.Ctx, va)
		if err != nil {
			return Result{Err: "no validator"}
		}
		if val.IsUnbonded() {
			return Result{Err: "unbonded"}
		}
		power := val.ConsensusPower(sk.PowerReduction(w.Ctx))
		f := decRaw(e.F)
		// the fraction the hook will receive, computed as x/staking does at infraction height = current height
		slashAmount := math.LegacyNewDecFromInt(sk.TokensFromConsensusPower(w.Ctx, power)).Mul(f).TruncateInt()
		tokensToBurn := math.MinInt(slashAmount, val.Tokens)
		tokensToBurn = math.MaxInt(tokensToBurn, math.ZeroInt())
		feff := math.LegacyOneDec()
		if val.Tokens.IsPositive() {
			feff = math.LegacyNewDecFromInt(tokensToBurn).QuoRoundUp(math.LegacyNewDecFromInt(val.Tokens))
			if feff.GT(math.LegacyOneDec()) {
				feff = math.LegacyOneDec()
			}
		}
		r := w.direct(func(ctx sdk.Context) error {
			burned, err := sk.Slash(ctx, w.Cons[i], ctx.BlockHeight(), power, f)
			if err != nil {
				return err
			}
			_ = burned
			if e.Jail {
				v2, err := sk.GetValidator(ctx, va)
				if err == nil && !v2.Jailed {
					return sk.Jail(ctx, w.Cons[i])
				}
			}
			return nil
		})
		r.Feff = rawDec(feff)
		r.Burned = tokensToBurn.String()
		return r

	case "Unjail":
		i := w.ValIndex(e.V)
		return w.atomic(func(ctx sdk.Context) error { return sk.Unjail(ctx, w.Cons[i]) })
	case "Jail":
		// jailing without a slash (downtime with a zero slash fraction): the validator leaves the bonded set at the end of the block
		i := w.ValIndex(e.V)
		return w.atomic(func(ctx sdk.Context) error {
			val, err := sk.GetValidator(ctx, w.Vals[i])
			if err != nil {
				return err
			}
			if val.Jailed {
				return fmt.Errorf("already jailed")
			}
			return sk.Jail(ctx, w.Cons[i])
		})

	case "NativeDelegate":
		u := w.acct(e.D)
		va, _ := w.ValByName(e.V)
		return w.atomic(func(ctx sdk.Context) error {
			val, err := sk.GetValidator(ctx, va)
			if err != nil {
				return err
			}
			_, err = sk.Delegate(ctx, u, mustInt(e.X), stakingtypes.Unbonded, val, true)
			return err
		})
	case "NativeUndelegate":
		u := w.acct(e.D)
		va, _ := w.ValByName(e.V)
		return w.atomic(func(ctx sdk.Context) error {
			var shares math.LegacyDec
			if e.X == "all" {
				d, err := sk.GetDelegation(ctx, u, va)
				if err != nil {
					return err
				}
				shares = d.Shares
			} else {
				s, err := sk.ValidateUnbondAmount(ctx, u, va, mustInt(e.X))
				if err != nil {
					return err
				}
				shares = s
			}
			_, _, err := sk.Undelegate(ctx, u, va, shares)
			return err
		})

	case "Accrue":
		va, _ := w.ValByName(e.V)
		return w.atomic(func(ctx sdk.Context) error {
			val, err := sk.GetValidator(ctx, va)
			if err != nil {
				return err
			}
			coins := sdk.NewCoins()
			for _, c := range e.Coins {
				coins = coins.Add(sdk.NewCoin(c.A, mustInt(c.X)))
			}
			if err := w.App.BankKeeper.MintCoins(ctx, "mint", coins); err != nil {
				return err
			}
			if err := w.App.BankKeeper.SendCoinsFromModuleToModule(ctx, "mint", distrtypes.ModuleName, coins); err != nil {
				return err
			}
			return w.App.DistrKeeper.AllocateTokensToValidator(ctx, val, sdk.NewDecCoinsFromCoins(coins...))
		})
	case "AccrueFees":
		// what x/distribution's begin-blocker does with the fee collector, directed at one validator
		va, _ := w.ValByName(e.V)
		return w.atomic(func(ctx sdk.Context) error {
			val, err := sk.GetValidator(ctx, va)
			if err != nil {
				return err
			}
			coins := w.App.BankKeeper.GetAllBalances(ctx, authtypes.NewModuleAddress(authtypes.FeeCollectorName))
			if coins.IsZero() {
				return fmt.Errorf("no fees")
			}
			if err := w.App.BankKeeper.SendCoinsFromModuleToModule(ctx, authtypes.FeeCollectorName, distrtypes.ModuleName, coins); err != nil {
				return err
			}
			return w.App.DistrKeeper.AllocateTokensToValidator(ctx, val, sdk.NewDecCoinsFromCoins(coins...))
		})

	case "Donate":
		d, _ := w.DelByName(e.D)
		r := w.atomic(func(ctx sdk.Context) error {
			return w.App.BankKeeper.SendCoins(ctx, d, authtypes.NewModuleAddress(types.ModuleName), sdk.NewCoins(sdk.NewCoin(e.A, mustInt(e.X))))
		})
		if r.Ok {
			cur, ok := w.Donated[e.A]
			if !ok {
				cur = math.ZeroInt()
			}
			w.Donated[e.A] = cur.Add(mustInt(e.X))
		}
		return r

	case "GovCreate":
		wr := types.RewardWeightRange{Min: decRaw(e.WMin), Max: decRaw(e.WMax)}
		if e.Legacy {
			return w.legacy(&types.MsgCreateAllianceProposal{Title: "t", Description: "d", Denom: e.A, RewardWeight: decRaw(e.Weight), TakeRate: decRaw(e.Take), RewardChangeRate: decRaw(e.Rate), RewardChangeInterval: secs(e.ChgInt), RewardWeightRange: wr})
		}
		return w.atomic(func(ctx sdk.Context) error {
			_, err := w.MS.CreateAlliance(ctx, &types.MsgCreateAlliance{Authority: w.signer(e.Signer), Denom: e.A, RewardWeight: decRaw(e.Weight), TakeRate: decRaw(e.Take), RewardChangeRate: decRaw(e.Rate), RewardChangeInterval: secs(e.ChgInt), RewardWeightRange: wr})
			return err
		})
	case "GovUpdate":
		wr := types.RewardWeightRange{Min: decRaw(e.WMin), Max: decRaw(e.WMax)}
		if e.Legacy {
			return w.legacy(&types.MsgUpdateAllianceProposal{Title: "t", Description: "d", Denom: e.A, RewardWeight: decRaw(e.Weight), TakeRate: decRaw(e.Take), RewardChangeRate: decRaw(e.Rate), RewardChangeInterval: secs(e.ChgInt), RewardWeightRange: wr})
		}
		return w.atomic(func(ctx sdk.Context) error {
			_, err := w.MS.UpdateAlliance(ctx, &types.MsgUpdateAlliance{Authority: w.signer(e.Signer), Denom: e.A, RewardWeight: decRaw(e.Weight), TakeRate: decRaw(e.Take), RewardChangeRate: decRaw(e.Rate), RewardChangeInterval: secs(e.ChgInt), RewardWeightRange: wr})
			return err
		})
	case "GovDelete":
		if e.Legacy {
			return w.legacy(&types.MsgDeleteAllianceProposal{Title: "t", Description: "d", Denom: e.A})
		}
		return w.atomic(func(ctx sdk.Context) error {
			_, err := w.MS.DeleteAlliance(ctx, &types.MsgDeleteAlliance{Authority: w.signer(e.Signer), Denom: e.A})
			return err
		})
	case "GovParams":
		return w.atomic(func(ctx sdk.Context) error {
			_, err := w.MS.UpdateParams(ctx, &types.MsgUpdateParams{Authority: w.signer(e.Signer), Params: types.Params{RewardDelayTime: secs(e.Delay), TakeRateClaimInterval: secs(e.Interval), LastTakeRateClaimTime: abs(e.Last)}})
			return err
		})

	case "ExportImport":
		same := false
		r := w.direct(func(ctx sdk.Context) error {
			var err error
			same, err = w.exportImport(ctx)
			return err
		})
		r.Same = same
		return r
	case "ForkImport":
		// lock-step variant: the trace continues on the ORIGINAL state; a sibling branch gets the re-imported module.
		// Both are branches of the frozen current state so that neither sees the other's writes.
		base := w.Ctx
		a, _ := base.CacheContext()
		b, _ := base.CacheContext()
		same := false
		var res Result
		func() {
			defer func() {
				if rec := recover(); rec != nil {
					res = Result{Panic: true, Err: fmt.Sprint(rec)}
				}
			}()
			var err error
			same, err = w.exportImport(b)
			if err != nil {
				res = Result{Err: err.Error()}
				return
			}
			res = Result{Ok: true}
		}()
		res.Same = same
		w.Ctx = a
		if res.Ok {
			w.mirror = &b
			w.mirrorDon = map[string]math.Int{}
			for k, v := range w.Donated {
				w.mirrorDon[k] = v
			}
		}
		return res
	}
	panic("unknown event " + e.Ev)
}

func (w *World) legacy(c govv1beta1.Content) Result {
	h := alliance.NewAllianceProposalHandler(w.App.AllianceKeeper)
	return w.atomic(func(ctx sdk.Context) error {
		// x/gov validates the content when the proposal is submitted
		if err := c.ValidateBasic(); err != nil {
			return err
		}
		return h(ctx, c)
	})
}

// acct resolves "dN" (delegator) and "opN" (validator operator) account names.
func (w *World) acct(n string) sdk.AccAddress {
	if d, ok := w.DelByName(n); ok {
		return d
	}
	var i int
	if _, err := fmt.Sscanf(n, "op%d", &i); err == nil && i >= 0 && i < len(w.Vals) {
		return sdk.AccAddress(w.Vals[i])
	}
	panic("unknown account " + n)
}

// exportImport exports the module genesis, wipes the module store and imports it again.
// It reports whether a second export is byte-identical to the first.
func (w *World) exportImport(ctx sdk.Context) (bool, error) {
	k := w.App.AllianceKeeper
	gs := k.ExportGenesis(ctx)
	b1 := w.App.AppCodec().MustMarshalJSON(gs)
	wipeStore(ctx, w)
	k.InitGenesis(ctx, gs)
	gs2 := k.ExportGenesis(ctx)
	b2 := w.App.AppCodec().MustMarshalJSON(gs2)
	return bytes.Equal(b1, b2), nil
}

func wipeStore(ctx sdk.Context, w *World) {
	store := runtime.KVStoreAdapter(w.App.AllianceKeeper.StoreService().OpenKVStore(ctx))
	it := store.Iterator(nil, nil)
	var keys [][]byte
	for ; it.Valid(); it.Next() {
		keys = append(keys, append([]byte{}, it.Key()...))
	}
	it.Close()
	for _, key := range keys {
		store.Delete(key)
	}
}

func runAllInvariants(ctx sdk.Context, w *World) (string, bool) {
	return alliance.RunAllInvariants(ctx, w.App.AllianceKeeper)
}

var _ = time.Second

// ---- determinism replays (C19) ----

var detStores = []string{"alliance", "bank", "staking", "distribution", "slashing", "acc", "mint"}

// storeDigest hashes the raw key/value content of the stores the state machine writes.
func (w *World) storeDigest(ctx sdk.Context) string {
	h := sha256.New()
	for _, name := range detStores {
		func() {
			defer func() { _ = recover() }()
			key := w.App.GetKey(name)
			if key == nil {
				return
			}
			it := ctx.KVStore(key).Iterator(nil, nil)
			defer it.Close()
			for ; it.Valid(); it.Next() {
				h.Write([]byte(name))
				h.Write(it.Key())
				h.Write([]byte{0})
				h.Write(it.Value())
				h.Write([]byte{1})
			}
		}()
	}
	return hex.EncodeToString(h.Sum(nil))
}

func eventsDigest(ctx sdk.Context) string {
	h := sha256.New()
	for _, e := range ctx.EventManager().Events() {
		h.Write([]byte(e.Type))
		for _, a := range e.Attributes {
			h.Write([]byte(a.Key))
			h.Write([]byte{0})
			h.Write([]byte(a.Value))
			h.Write([]byte{1})
		}
	}
	return hex.EncodeToString(h.Sum(nil))
}

// branchExec runs e on a discarded branch of the current state and returns the result, the digest of the stores and
// of the emitted events, and the projected state.
func (w *World) branchExec(e Event, project bool) (Result, string, *PState) {
	saved := w.Ctx
	don := map[string]math.Int{}
	for k, v := range w.Donated {
		don[k] = v
	}
	defer func() { w.Ctx = saved; w.Donated = don }()
	cctx, _ := saved.CacheContext()
	w.Ctx = cctx.WithEventManager(sdk.NewEventManager())
	res := w.Exec(e)
	d := w.storeDigest(w.Ctx) + "/" + eventsDigest(w.Ctx) + "/" + fmt.Sprint(res.Ok, res.Err, res.Panic)
	var ps *PState
	if project {
		p := w.Project(w.Ctx)
		ps = &p
	}
	return res, d, ps
}

// decoy runs, on a discarded branch, a continuation that leaves the process in a state shaped by ANOTHER store state: the
// event itself followed by a long block gap, both end blockers, a genesis export and the params query (variant 1), or a
// change of the module parameters followed by reads (variant 0).  Anything a replay
// can see of it (memoised params, cached decoded records, package-level variables) is process memory, not state.
func (w *World) decoy(e Event, variant int) {
	saved := w.Ctx
	don := map[string]math.Int{}
	for k, v := range w.Donated {
		don[k] = v
	}
	defer func() { w.Ctx = saved; w.Donated = don }()
	defer func() { _ = recover() }()
	cctx, _ := saved.CacheContext()
	w.Ctx = cctx.WithEventManager(sdk.NewEventManager())
	if variant == 0 {
		// other module parameters, then reads
		w.Exec(Event{Ev: "GovParams", Signer: "authority", Delay: 7, Interval: 1, Last: w.Ctx.BlockTime().Unix() - 5})
		_, _ = w.QS.Params(w.Ctx, &types.QueryParamsRequest{})
		_ = w.App.AllianceKeeper.ExportGenesis(w.Ctx)
		return
	}
	w.Exec(e)
	w.Ctx = w.Ctx.WithBlockTime(w.Ctx.BlockTime().Add(secs(1000))).WithBlockHeight(w.Ctx.BlockHeight() + 1)
	w.Exec(Event{Ev: "StakingEndBlock"})
	w.Exec(Event{Ev: "EndBlock"})
	_ = w.App.AllianceKeeper.ExportGenesis(w.Ctx)
	_, _ = w.QS.Params(w.Ctx, &types.QueryParamsRequest{})
}

// ExecDet executes e for real and, before that, k times on sibling branches of the same state (with a decoy continuation of
// a different state in between); all executions must agree.
func (w *World) ExecDet(e Event, k int) Result {
	if k <= 0 || e.Ev == "BeginBlock" {
		return w.Exec(e)
	}
	var digests []string
	for i := 0; i < k; i++ {
		if i > 0 {
			w.decoy(e, i%2)
		}
		_, d, _ := w.branchExec(e, false)
		digests = append(digests, d)
	}
	w.decoy(e, 1)
	// the real execution, measured the same way
	saved := w.Ctx
	w.Ctx = saved.WithEventManager(sdk.NewEventManager())
	pre := w.Ctx
	_ = pre
	res := w.Exec(e)
	d := w.storeDigest(w.Ctx) + "/" + eventsDigest(w.Ctx) + "/" + fmt.Sprint(res.Ok, res.Err, res.Panic)
	w.Ctx = w.Ctx.WithEventManager(saved.EventManager())
	digests = append(digests, d)
	res.DetN = len(digests)
	res.Det = true
	sort.Strings(digests)
	if digests[0] != digests[len(digests)-1] {
		res.Det = false
		res.DetDiff = digests[0][:16] + " vs " + digests[len(digests)-1][:16]
	}
	return res
}

// ExecMirror executes e on the re-imported sibling branch (if there is one) and returns its result and projection.
func (w *World) ExecMirror(e Event) []Mirror {
	if w.mirror == nil || e.Ev == "ForkImport" || e.Ev == "ExportImport" {
		return []Mirror{}
	}
	mainCtx, mainDon := w.Ctx, w.Donated
	w.Ctx, w.Donated = *w.mirror, w.mirrorDon
	res := w.Exec(e)
	post := w.Project(w.Ctx)
	m := w.Ctx
	w.mirror, w.mirrorDon = &m, w.Donated
	w.Ctx, w.Donated = mainCtx, mainDon
	return []Mirror{{Res: res, Post: post}}
}
