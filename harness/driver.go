package harness

// driver.go — drivers: seeded random histories per family, and replay of given schedules
// (TLC-generated behaviours, counterexamples, known-finding witnesses, VIOLATION replays).

import (
	"fmt"
	"math/big"
	"math/rand"
	"strings"

	"cosmossdk.io/math"
	authtypes "github.com/cosmos/cosmos-sdk/x/auth/types"
	"github.com/terra-money/alliance/x/alliance/types"
)

// Schedule is a replayable history: a world configuration, the probes to evaluate, and events.
type Schedule struct {
	Name   string   `json:"name"`
	Family string   `json:"family"`
	Cfg    WorldCfg `json:"cfg"`
	Events []Event  `json:"events"`
	Probes []string `json:"probes"` // "liveness","claimAll","queries","redeleg","supply"
	Every  int      `json:"every"`  // probe every n-th step (0/1 = every step)
	Det    int      `json:"det"`    // replay every step this many times on sibling branches (C19)
	Note   string   `json:"note,omitempty"`
}

func probeCfg(names []string, big string) ProbeCfg {
	pc := ProbeCfg{BigAmt: big}
	for _, n := range names {
		switch n {
		case "liveness":
			pc.Liveness = true
		case "claimAll":
			pc.ClaimAll = true
		case "queries":
			pc.Queries = true
		case "redeleg":
			pc.Redeleg = true
		case "supply":
			pc.Supply = true
		}
	}
	return pc
}

const ONE = "1000000000000000000"

func decStr(s string) string { return rawDec(dec(s)) }

// Gen generates events for one family. It looks at the live world to prefer meaningful operations.
type Gen struct {
	w       *World
	r       *rand.Rand
	family  string
	inBlock bool
	big     bool // use amounts up to 10^30
	queue   []Event
	early   bool // still at the start of the block (x/distribution allocates only in its begin-blocker)
	clean   bool // steer away from the root causes of known findings: no slashes, no take rate, small amounts
}

func pick[T any](r *rand.Rand, xs []T) T { return xs[r.Intn(len(xs))] }

func (g *Gen) amount() string {
	small := []string{"1", "2", "3", "7", "10", "100", "1000", "999999", "1000000", "1000001"}
	if !g.big {
		if g.r.Intn(4) == 0 {
			return fmt.Sprint(1 + g.r.Intn(5000))
		}
		return pick(g.r, small)
	}
	switch g.r.Intn(6) {
	case 0:
		return pick(g.r, small)
	case 1:
		return pick(g.r, []string{"1000000000000000000", "1000000000000000000000000", "1000000000000000000000000000000"})
	case 2:
		// random magnitude
		n := new(big.Int).Exp(big.NewInt(10), big.NewInt(int64(g.r.Intn(31))), nil)
		n.Mul(n, big.NewInt(int64(1+g.r.Intn(9))))
		n.Add(n, big.NewInt(int64(g.r.Intn(3))-1))
		if n.Sign() <= 0 {
			n.SetInt64(1)
		}
		return n.String()
	default:
		return fmt.Sprint(1 + g.r.Intn(2_000_000))
	}
}

func (g *Gen) fraction() string {
	switch g.r.Intn(8) {
	case 0:
		return decStr("0.0001")
	case 1:
		return decStr("0.01")
	case 2:
		return decStr("0.05")
	case 3, 4:
		return decStr("0.5")
	case 5:
		return decStr("1")
	default:
		// random 18-digit fraction in (0,1)
		n := new(big.Int).Rand(g.r, new(big.Int).Exp(big.NewInt(10), big.NewInt(18), nil))
		if n.Sign() == 0 {
			n.SetInt64(1)
		}
		return n.String()
	}
}

func (g *Gen) gap() int64 {
	I := g.w.Cfg.Interval
	U := g.w.Cfg.Unbonding
	opts := []int64{1, 1, 1, 2, I - 1, I, I + 1, 2*I + 1, 5 * I, U - 1, U, U + 1}
	for {
		x := pick(g.r, opts)
		if x >= 1 {
			return x
		}
	}
}

func (g *Gen) dname() string { return fmt.Sprintf("d%d", g.r.Intn(len(g.w.Dels))) }
func (g *Gen) vname() string { return fmt.Sprintf("v%d", g.r.Intn(len(g.w.Vals))) }

// allianceVal: in the power family the last validator mostly stays without alliance stake (it still moves native stake)
func (g *Gen) allianceVal() string {
	if g.family == "power" && len(g.w.Vals) > 1 && g.r.Intn(10) != 0 {
		return fmt.Sprintf("v%d", g.r.Intn(len(g.w.Vals)-1))
	}
	return g.vname()
}
func (g *Gen) aname() string {
	as := g.w.App.AllianceKeeper.GetAllAssets(g.w.Ctx)
	if g.family == "takerate" && g.r.Intn(10) < 6 {
		// stake goes into assets that are still in their warm-up period more often than not
		for _, a := range as {
			if !a.RewardsStarted(g.w.Ctx.BlockTime()) {
				return a.Denom
			}
		}
	}
	if len(as) == 0 || g.r.Intn(40) == 0 {
		return pick(g.r, g.w.Denoms())
	}
	return as[g.r.Intn(len(as))].Denom
}

// existing position or random triple
func (g *Gen) position() (string, string, string, math.Int) {
	pos := g.w.positions(g.w.Ctx)
	if len(pos) == 0 || g.r.Intn(12) == 0 {
		return g.dname(), g.vname(), g.aname(), math.ZeroInt()
	}
	p := pos[g.r.Intn(len(pos))]
	b := math.ZeroInt()
	if p.balOk {
		b = p.bal
	}
	return g.w.Name(p.d.String()), g.w.Name(p.v.String()), p.a, b
}

func (g *Gen) partOf(bal math.Int) string {
	if !bal.IsPositive() {
		return g.amount()
	}
	switch g.r.Intn(8) {
	case 0, 1:
		return bal.String()
	case 2:
		return bal.AddRaw(1).String()
	case 3:
		if bal.GT(math.OneInt()) {
			return bal.SubRaw(1).String()
		}
		return "1"
	case 4:
		return "1"
	default:
		// random part
		n := new(big.Int).Rand(g.r, bal.BigInt())
		n.Add(n, big.NewInt(1))
		return n.String()
	}
}

type weighted struct {
	w  int
	fn func() Event
}

func (g *Gen) Next() Event {
	e := g.pop()
	switch e.Ev {
	case "BeginBlock":
		g.inBlock, g.early = true, true
	case "EndBlock":
		g.inBlock = false
	case "Accrue", "AccrueFees":
	default:
		g.early = false
	}
	return e
}

func (g *Gen) pop() Event {
	if len(g.queue) > 0 {
		e := g.queue[0]
		g.queue = g.queue[1:]
		return e
	}
	if !g.inBlock {
		return Event{Ev: "BeginBlock", Dt: g.gap()}
	}
	// one decision in seven is a multi-step pattern aimed at the interleavings the family is about
	if !g.early && g.r.Intn(7) == 0 {
		if evs := g.pattern(); len(evs) > 0 {
			g.queue = append(g.queue, evs[1:]...)
			return evs[0]
		}
	}
	return g.next()
}

func endOfBlock() []Event { return []Event{{Ev: "StakingEndBlock"}, {Ev: "EndBlock"}} }

func block(dt int64, evs ...Event) []Event {
	out := []Event{{Ev: "BeginBlock", Dt: dt}}
	out = append(out, evs...)
	return append(out, endOfBlock()...)
}

func (g *Gen) otherVal(not ...string) string {
	for i := 0; i < 20; i++ {
		v := g.vname()
		ok := true
		for _, n := range not {
			if n == v {
				ok = false
			}
		}
		if ok {
			return v
		}
	}
	return g.vname()
}

func frac(b math.Int, num, den int64) string {
	x := b.MulRaw(num).QuoRaw(den)
	if !x.IsPositive() {
		return "1"
	}
	return x.String()
}

// pattern returns a multi-step history built around the current state (events are in-block unless they carry their own
// block boundaries, in which case the pattern starts by closing the current block).
func (g *Gen) pattern() []Event {
	U := g.w.Cfg.Unbonding
	d, v, a, bal := g.position()
	hasPos := bal.IsPositive()
	switch g.family {
	case "redeleg", "shares", "unbond", "full", "genesis":
		switch g.r.Intn(7) {
		case 5: // a validator that has left the active set (jailed, status updated) is slashed for an earlier infraction (C06 C07 C08)
			if !hasPos {
				return nil
			}
			evs := []Event{{Ev: "RealSlash", V: v, F: g.fraction(), Jail: true}}
			evs = append(evs, endOfBlock()...)
			evs = append(evs, block(1, Event{Ev: "SlashHook", V: v, F: g.fraction()}, Event{Ev: "Undelegate", D: d, V: v, A: a, X: frac(bal, 1, 3)})...)
			evs = append(evs, block(1, Event{Ev: "Unjail", V: v})...)
			return evs
		case 6: // one delegator leaves two denoms of one validator in one block (one bucket, two index keys), export/import, slash, maturity (C18 C02 C07 C20)
			if !hasPos {
				return nil
			}
			var evs []Event
			for _, as := range g.w.App.AllianceKeeper.GetAllAssets(g.w.Ctx) {
				if as.Denom != a {
					evs = append(evs, Event{Ev: "Delegate", D: d, V: v, A: as.Denom, X: g.amount()})
				}
			}
			evs = append(evs, endOfBlock()...)
			var und []Event
			for _, as := range g.w.App.AllianceKeeper.GetAllAssets(g.w.Ctx) {
				und = append(und, Event{Ev: "Undelegate", D: d, V: v, A: as.Denom, X: "1"})
			}
			und = append(und, Event{Ev: "Undelegate", D: d, V: v, A: a, X: frac(bal, 1, 4)})
			evs = append(evs, block(1, und...)...)
			imp := "SlashHook"
			if g.family == "genesis" {
				imp = pick(g.r, []string{"ExportImport", "ForkImport"})
			}
			if imp == "SlashHook" {
				evs = append(evs, block(1, Event{Ev: "SlashHook", V: v, F: g.fraction()})...)
			} else {
				evs = append(evs, block(1, Event{Ev: imp}, Event{Ev: "SlashHook", V: v, F: g.fraction()})...)
			}
			if U > 1 {
				evs = append(evs, block(U-1)...)
			}
			evs = append(evs, block(1)...)
			evs = append(evs, block(1)...)
			return evs
		case 0: // redelegate, destination slashed, destination partly withdrawn, source slashed (C07 C08)
			if !hasPos {
				return nil
			}
			dst := g.otherVal(v)
			return []Event{
				{Ev: "Redelegate", D: d, Src: v, Dst: dst, A: a, X: g.partOf(bal)},
				{Ev: "SlashHook", V: dst, F: g.fraction()},
				{Ev: "Undelegate", D: d, V: dst, A: a, X: frac(bal, int64(1+g.r.Intn(9)), 10)},
				{Ev: "SlashHook", V: v, F: g.fraction()},
			}
		case 1: // several undelegations of one delegator in one block, a slash, then end-blocks around the completion time (C02 C07 C20)
			var evs []Event
			for _, p := range g.w.positions(g.w.Ctx) {
				if g.w.Name(p.d.String()) != d || !p.balOk || !p.bal.IsPositive() || len(evs) >= 5 {
					continue
				}
				vn := g.w.Name(p.v.String())
				evs = append(evs, Event{Ev: "Undelegate", D: d, V: vn, A: p.a, X: frac(p.bal, 1, int64(2+g.r.Intn(4)))})
				if g.r.Intn(2) == 0 {
					evs = append(evs, Event{Ev: "Undelegate", D: d, V: vn, A: p.a, X: frac(p.bal, 1, int64(3+g.r.Intn(5)))})
				}
			}
			if len(evs) == 0 {
				return nil
			}
			evs = append(evs, Event{Ev: "SlashHook", V: v, F: g.fraction()})
			evs = append(evs, endOfBlock()...)
			if g.family == "genesis" {
				// export and re-import while the shared buckets are pending, then slash and let them mature on the imported state
				evs = append(evs, block(1, Event{Ev: pick(g.r, []string{"ExportImport", "ForkImport"})}, Event{Ev: "SlashHook", V: g.vname(), F: g.fraction()})...)
			}
			if U > 1 {
				evs = append(evs, block(U-1)...)
			}
			evs = append(evs, block(1, Event{Ev: "SlashHook", V: g.vname(), F: g.fraction()})...)
			evs = append(evs, block(1)...)
			return evs
		case 2: // redelegations packed into one block: repeated A->B, a second denom A->B, fan-in, then maturity (C15 C07 C18)
			if !hasPos {
				return nil
			}
			dst := g.otherVal(v)
			evs := []Event{
				{Ev: "Redelegate", D: d, Src: v, Dst: dst, A: a, X: frac(bal, 1, 4)},
				{Ev: "Redelegate", D: d, Src: v, Dst: dst, A: a, X: frac(bal, 1, 5)},
			}
			for _, p := range g.w.positions(g.w.Ctx) {
				if g.w.Name(p.d.String()) == d && p.balOk && p.bal.IsPositive() && (p.a != a || g.w.Name(p.v.String()) != v) && g.w.Name(p.v.String()) != dst {
					evs = append(evs, Event{Ev: "Redelegate", D: d, Src: g.w.Name(p.v.String()), Dst: dst, A: p.a, X: frac(p.bal, 1, 3)})
				}
			}
			evs = append(evs, Event{Ev: "Redelegate", D: d, Src: dst, Dst: g.otherVal(dst), A: a, X: "1"}) // onward hop: must be refused
			evs = append(evs, endOfBlock()...)
			if g.family == "genesis" {
				evs = append(evs, block(1, Event{Ev: pick(g.r, []string{"ExportImport", "ForkImport"})}, Event{Ev: "Redelegate", D: d, Src: dst, Dst: g.otherVal(dst), A: a, X: "1"})...)
			}
			if U > 1 {
				evs = append(evs, block(U-1, Event{Ev: "SlashHook", V: v, F: g.fraction()})...)
			}
			evs = append(evs, block(1)...)
			evs = append(evs, block(1, Event{Ev: "Redelegate", D: d, Src: dst, Dst: g.otherVal(dst), A: a, X: "1"})...)
			return evs
		case 3: // full exit and re-entry of an asset (dust and reset paths, C03)
			if !hasPos {
				return nil
			}
			return []Event{
				{Ev: "Undelegate", D: d, V: v, A: a, X: bal.String()},
				{Ev: "Delegate", D: d, V: g.vname(), A: a, X: g.amount()},
				{Ev: "Delegate", D: g.dname(), V: v, A: a, X: "1"},
			}
		default: // slash twice, then stake arrives on the slashed validator and on another one (C06 C04)
			return []Event{
				{Ev: "SlashHook", V: v, F: g.fraction()},
				{Ev: "Delegate", D: g.dname(), V: v, A: a, X: g.amount()},
				{Ev: "SlashHook", V: v, F: g.fraction()},
				{Ev: "Delegate", D: g.dname(), V: g.otherVal(v), A: a, X: g.amount()},
				{Ev: "SlashHook", V: g.otherVal(v), F: g.fraction()},
			}
		}
	case "rewards":
		if hasPos && g.r.Intn(5) == 0 {
			// rewards are pending for a validator when it is jailed without a slash and leaves the bonded set; while it is out, its
			// positions claim, new stake arrives, and a redelegation out of it is slashed; then it comes back (C13 C12)
			ov := g.otherVal(v)
			evs := endOfBlock()
			evs = append(evs, block(1, Event{Ev: "Accrue", V: v, Coins: []Amt{{BondDenom, pick(g.r, []string{"1000000", "123456789"})}}}, Event{Ev: "Jail", V: v})...)
			evs = append(evs, block(1, Event{Ev: "Claim", D: d, V: v, A: a}, Event{Ev: "Delegate", D: g.dname(), V: v, A: a, X: g.amount()},
				Event{Ev: "Redelegate", D: d, Src: v, Dst: ov, A: a, X: frac(bal, 1, 4)})...)
			evs = append(evs, block(1, Event{Ev: "Unjail", V: v})...)
			evs = append(evs, block(1, Event{Ev: "Accrue", V: v, Coins: []Amt{{BondDenom, "1000"}}}, Event{Ev: "Claim", D: d, V: v, A: a}, Event{Ev: "Claim", D: d, V: ov, A: a})...)
			return evs
		}
		if !g.clean && hasPos && g.r.Intn(4) == 0 {
			// the source of a pending redelegation is slashed while rewards are pending for the destination validator: the callback
			// settles the destination position first; its next claim pays nothing more (C12 C13)
			ov := g.otherVal(v)
			evs := []Event{{Ev: "Redelegate", D: d, Src: v, Dst: ov, A: a, X: frac(bal, 1, 2)}}
			evs = append(evs, endOfBlock()...)
			evs = append(evs, block(1)...)
			evs = append(evs, block(1, Event{Ev: "Accrue", V: ov, Coins: []Amt{{BondDenom, pick(g.r, []string{"1000000", "123456789"})}}},
				Event{Ev: "SlashHook", V: v, F: pick(g.r, []string{"10000000000000000", "100000000000000"})}, Event{Ev: "Claim", D: d, V: ov, A: a})...)
			return evs
		}
		if g.big && g.r.Intn(3) == 0 {
			// a validator whose share of every asset drops to a few 10^-18 (whales arrive elsewhere in the block in which it
			// still has rewards pending through the module's stake): with weights below one its staked reward weights
			// truncate to zero (boundary of AddAssetsToRewardPool, fix K11)
			ov := g.otherVal(v)
			dd := g.dname()
			k := int64(1 + g.r.Intn(3))
			assets := g.w.App.AllianceKeeper.GetAllAssets(g.w.Ctx)
			var evs []Event
			for _, as := range assets {
				evs = append(evs, Event{Ev: "Delegate", D: dd, V: v, A: as.Denom, X: fmt.Sprintf("%d", k*1000000)})
			}
			evs = append(evs, endOfBlock()...)
			evs = append(evs, block(1)...)
			evs = append(evs, block(1)...)
			blk := []Event{{Ev: "Accrue", V: v, Coins: []Amt{{BondDenom, "1000000000000000000000000"}}}}
			wd := g.dname()
			for _, as := range assets {
				blk = append(blk, Event{Ev: "Delegate", D: wd, V: ov, A: as.Denom, X: "1000000000000000000000000"})
			}
			for _, as := range assets {
				blk = append(blk, Event{Ev: "Claim", D: dd, V: v, A: as.Denom})
			}
			return append(evs, block(1, blk...)...)
		}
		switch g.r.Intn(3) {
		case 0: // a dust position next to a large one: tiny rewards, top-up, rewards again, everybody claims (C12 C13)
			dd := g.dname()
			coins := []Amt{{BondDenom, pick(g.r, []string{"7", "1000", "1000000"})}}
			evs := []Event{{Ev: "Delegate", D: dd, V: v, A: a, X: "1"}, {Ev: "Delegate", D: g.dname(), V: v, A: a, X: "1000000"}}
			evs = append(evs, endOfBlock()...)
			evs = append(evs, block(1)...)
			evs = append(evs, block(1, Event{Ev: "Accrue", V: v, Coins: coins}, Event{Ev: "Claim", D: dd, V: v, A: a}, Event{Ev: "Delegate", D: dd, V: v, A: a, X: "1000000"})...)
			evs = append(evs, block(1, Event{Ev: "Accrue", V: v, Coins: coins}, Event{Ev: "Claim", D: dd, V: v, A: a}, Event{Ev: "Claim", D: d, V: v, A: a})...)
			return evs
		case 1: // rewards accrue, a position is partly withdrawn, then claims twice (C13 C12)
			if !hasPos {
				return nil
			}
			evs := endOfBlock()
			evs = append(evs, block(1, Event{Ev: "Accrue", V: v, Coins: []Amt{{BondDenom, "1000000"}}},
				Event{Ev: "Undelegate", D: d, V: v, A: a, X: frac(bal, 1, 3)}, Event{Ev: "Claim", D: d, V: v, A: a}, Event{Ev: "Claim", D: d, V: v, A: a})...)
			return evs
		default: // rewards accrue, then new stake arrives by delegation and by redelegation before anyone claims (C13)
			if !hasPos {
				return nil
			}
			evs := endOfBlock()
			nv := g.otherVal(v)
			evs = append(evs, block(1, Event{Ev: "Accrue", V: nv, Coins: []Amt{{BondDenom, "1000000"}, {ExtraDenom, "999"}}},
				Event{Ev: "Redelegate", D: d, Src: v, Dst: nv, A: a, X: frac(bal, 1, 2)},
				Event{Ev: "Delegate", D: g.dname(), V: nv, A: g.aname(), X: g.amount()},
				Event{Ev: "Claim", D: d, V: nv, A: a})...)
			return evs
		}
	case "power":
		// quiet blocks: nothing but a validator coming back / native stake moving, then blocks in which nothing happens (C10)
		evs := endOfBlock()
		switch g.r.Intn(5) {
		case 4:
			// a validator with native delegators is slashed for real (exchange rate != 1), then every alliance position leaves it:
			// the rebalancer must take the module's whole (fractional) stake off it
			vv := g.vname()
			first := []Event{{Ev: "NativeDelegate", D: g.dname(), V: vv, X: pick(g.r, []string{"1000003", "2500001", "777777"})}, {Ev: "RealSlash", V: vv, F: g.fraction()}}
			evs = append(evs, block(1, first...)...)
			var out []Event
			for _, p := range g.w.positions(g.w.Ctx) {
				if g.w.Name(p.v.String()) == vv && p.balOk && p.bal.IsPositive() {
					out = append(out, Event{Ev: "Undelegate", D: g.w.Name(p.d.String()), V: vv, A: p.a, X: "bal"})
				}
			}
			evs = append(evs, block(1, out...)...)
			evs = append(evs, block(1)...)
			return evs
		case 3:
			// the operator of a validator withdraws the whole self-delegation: the validator is jailed, leaves the bonded set and -
			// when nothing else is staked on it natively and the module holds no stake there (only warm-up stake, or none) -
			// is removed by x/staking once its unbonding has matured (AfterValidatorRemoved; K13 when positions remain on it)
			i := g.r.Intn(len(g.w.Vals))
			vn := fmt.Sprintf("v%d", i)
			var first []Event
			for _, as := range g.w.App.AllianceKeeper.GetAllAssets(g.w.Ctx) {
				if !as.RewardsStarted(g.w.Ctx.BlockTime()) && g.r.Intn(2) == 0 {
					first = append(first, Event{Ev: "Delegate", D: g.dname(), V: vn, A: as.Denom, X: g.amount()})
				}
			}
			first = append(first, Event{Ev: "NativeUndelegate", D: fmt.Sprintf("op%d", i), V: vn, X: "all"})
			evs = append(evs, block(1, first...)...)
			evs = append(evs, block(U)...)
			evs = append(evs, block(1)...)
			d, v, a, b := g.position()
			evs = append(evs, block(1, Event{Ev: "Undelegate", D: d, V: v, A: a, X: g.partOf(b)})...)
			return evs
		case 0:
			// a validator (with or without alliance stake) is jailed without a slash, or comes back, in a block of its own
			jv := g.vname()
			evs = append(evs, block(1, Event{Ev: pick(g.r, []string{"Unjail", "Jail", "Jail"}), V: jv})...)
			evs = append(evs, block(1)...)
			evs = append(evs, block(1, Event{Ev: "Unjail", V: jv})...)
		case 1:
			// a native delegator enters and, in a block of its own, leaves completely (BeforeDelegationRemoved, fix F4)
			nd, nv := g.dname(), g.vname()
			evs = append(evs, block(1, Event{Ev: "NativeDelegate", D: nd, V: nv, X: pick(g.r, []string{"1000000", "2500000", "10000000"})})...)
			evs = append(evs, block(1)...)
			evs = append(evs, block(1, Event{Ev: "NativeUndelegate", D: nd, V: nv, X: "all"})...)
		default:
			evs = append(evs, block(1, Event{Ev: "RealSlash", V: g.vname(), F: g.fraction(), Jail: true})...)
		}
		evs = append(evs, block(1)...)
		evs = append(evs, block(1)...)
		return evs
	case "gov":
		// life cycle of an asset: everybody leaves it (unbondings and a redelegation still pending), it is deleted and created
		// again under the same denom with other parameters; slashes and maturity in between (C16 C07 C02 C03 C12)
		if !hasPos {
			return nil
		}
		ov := g.otherVal(v)
		evs := []Event{{Ev: "Redelegate", D: d, Src: v, Dst: ov, A: a, X: frac(bal, 1, 3)}}
		evs = append(evs, endOfBlock()...)
		var out []Event
		for _, p := range g.w.positions(g.w.Ctx) {
			if p.a == a {
				out = append(out, Event{Ev: "Undelegate", D: g.w.Name(p.d.String()), V: g.w.Name(p.v.String()), A: a, X: "bal"})
			}
		}
		out = append(out, Event{Ev: "Undelegate", D: d, V: ov, A: a, X: "bal"})
		evs = append(evs, block(1, out...)...)
		evs = append(evs, block(1, Event{Ev: "Undelegate", D: d, V: v, A: a, X: "bal"}, Event{Ev: "GovDelete", Signer: "authority", A: a})...)
		evs = append(evs, block(1, Event{Ev: "SlashHook", V: v, F: g.fraction()},
			Event{Ev: "GovCreate", Signer: "authority", A: a, Weight: decStr(pick(g.r, []string{"0.5", "2"})), WMin: decStr("0"), WMax: decStr("5"),
				Take: decStr(pick(g.r, []string{"0", "0.1"})), Rate: decStr("1"), ChgInt: 0})...)
		evs = append(evs, block(1, Event{Ev: "Delegate", D: g.dname(), V: v, A: a, X: g.amount()}, Event{Ev: "Delegate", D: d, V: ov, A: a, X: g.amount()})...)
		evs = append(evs, block(U)...)
		evs = append(evs, block(1, Event{Ev: "Claim", D: d, V: ov, A: a})...)
		return evs
	case "takerate":
		// many short blocks in a row (the clock must keep up), then one long gap
		var evs []Event
		evs = append(evs, endOfBlock()...)
		for i := 0; i < 4; i++ {
			evs = append(evs, block(1)...)
		}
		evs = append(evs, block(1, Event{Ev: "Delegate", D: g.dname(), V: g.vname(), A: g.aname(), X: g.amount()})...)
		evs = append(evs, block(g.w.Cfg.Interval+1)...)
		return evs
	}
	return nil
}

func (g *Gen) next() Event {
	fam := g.family
	endW := 14
	opts := []weighted{
		{endW, func() Event {
			g.queue = append(g.queue, Event{Ev: "EndBlock"})
			return Event{Ev: "StakingEndBlock"}
		}},
		{16, func() Event {
			return Event{Ev: "Delegate", D: g.dname(), V: g.allianceVal(), A: g.aname(), X: g.amount()}
		}},
		{12, func() Event {
			d, v, a, b := g.position()
			return Event{Ev: "Undelegate", D: d, V: v, A: a, X: g.partOf(b)}
		}},
		{10, func() Event {
			d, v, a, b := g.position()
			dst := g.vname()
			return Event{Ev: "Redelegate", D: d, Src: v, Dst: dst, A: a, X: g.partOf(b)}
		}},
		{6, func() Event {
			d, v, a, _ := g.position()
			return Event{Ev: "Claim", D: d, V: v, A: a}
		}},
	}
	// malformed or pointless requests (unknown validator or denom, zero amount, nothing to claim): must be refused without effect
	opts = append(opts, weighted{2, func() Event {
		d, v, a, _ := g.position()
		switch g.r.Intn(9) {
		case 8:
			return Event{Ev: "SlashHook", V: g.vname(), F: pick(g.r, []string{"0", "1000000000000000001", "-1", "2000000000000000000"})}
		case 0:
			return Event{Ev: "Delegate", D: d, V: "vx", A: g.aname(), X: g.amount()}
		case 1:
			return Event{Ev: "Delegate", D: d, V: g.vname(), A: "nope", X: "5"}
		case 2:
			return Event{Ev: "Delegate", D: d, V: g.vname(), A: g.aname(), X: "0"}
		case 3:
			return Event{Ev: "Undelegate", D: d, V: v, A: a, X: "0"}
		case 4:
			return Event{Ev: "Undelegate", D: d, V: "vx", A: a, X: "1"}
		case 5:
			return Event{Ev: "Redelegate", D: d, Src: v, Dst: "vx", A: a, X: "1"}
		case 6:
			return Event{Ev: "Redelegate", D: d, Src: v, Dst: g.otherVal(v), A: a, X: "0"}
		default:
			return Event{Ev: "Claim", D: g.dname(), V: pick(g.r, []string{"vx", g.vname()}), A: pick(g.r, []string{"nope", g.aname()})}
		}
	}})
	slashW, accrueW, nativeW, govW, donateW, realSlashW := 4, 0, 0, 0, 0, 0
	switch fam {
	case "unbond":
		slashW = 8
	case "redeleg":
		slashW = 8
	case "shares":
		slashW = 6
	case "takerate":
		slashW = 2
	case "rewards":
		accrueW, slashW, govW = 14, 1, 2
		opts[4].w = 16 // claims
		if g.clean {
			slashW = 0
			opts[4].w = 24
		}
	case "power":
		nativeW, realSlashW, slashW, accrueW, govW = 10, 5, 0, 3, 3
		opts[0].w = 30 // short blocks: many blocks in which only one thing (or nothing) happens
	case "gov":
		govW, slashW = 14, 1
	case "genesis":
		accrueW, govW, slashW = 5, 2, 4
	case "full":
		accrueW, nativeW, realSlashW, govW, donateW, slashW = 6, 4, 2, 3, 1, 3
	}
	if slashW > 0 {
		opts = append(opts, weighted{slashW, func() Event { return Event{Ev: "SlashHook", V: g.vname(), F: g.fraction()} }})
	}
	if realSlashW > 0 {
		opts = append(opts, weighted{realSlashW, func() Event { return Event{Ev: "RealSlash", V: g.vname(), F: g.fraction(), Jail: g.r.Intn(2) == 0} }})
		opts = append(opts, weighted{realSlashW/2 + 1, func() Event { return Event{Ev: "Unjail", V: g.vname()} }})
	}
	if !g.early {
		accrueW = 0 // rewards are allocated by x/distribution's begin-blocker, before any transaction
	} else {
		accrueW *= 3
	}
	if accrueW > 0 {
		opts = append(opts, weighted{accrueW, func() Event {
			coins := []Amt{{BondDenom, pick(g.r, []string{"1", "7", "1000", "1000000", "123456789"})}}
			if g.r.Intn(3) == 0 {
				coins = append([]Amt{{ExtraDenom, pick(g.r, []string{"1", "999", "1000000000000000000000000"})}}, coins...)
			}
			if g.big && g.r.Intn(3) == 0 {
				coins[len(coins)-1].X = "1000000000000000000000000"
			}
			return Event{Ev: "Accrue", V: g.vname(), Coins: coins}
		}})
		opts = append(opts, weighted{accrueW / 3, func() Event { return Event{Ev: "AccrueFees", V: g.vname()} }})
	}
	if nativeW > 0 {
		opts = append(opts, weighted{nativeW, func() Event {
			return Event{Ev: "NativeDelegate", D: g.dname(), V: g.vname(), X: pick(g.r, []string{"1", "1000", "1000000", "2500000", "10000000"})}
		}})
		opts = append(opts, weighted{nativeW, func() Event {
			x := pick(g.r, []string{"all", "all", "1", "1000", "500000"})
			u := g.dname()
			if g.r.Intn(10) == 0 {
				u = fmt.Sprintf("op%d", g.r.Intn(len(g.w.Vals)))
				x = pick(g.r, []string{"1000", "500000"})
			}
			return Event{Ev: "NativeUndelegate", D: u, V: g.vname(), X: x}
		}})
	}
	if govW > 0 {
		opts = append(opts, weighted{govW, func() Event { return g.govEvent() }})
	}
	if fam == "genesis" && g.early {
		opts = append(opts, weighted{8, func() Event { return Event{Ev: "ExportImport"} }})
		opts = append(opts, weighted{8, func() Event { return Event{Ev: "ForkImport"} }})
	}
	if donateW > 0 {
		opts = append(opts, weighted{donateW, func() Event { return Event{Ev: "Donate", D: g.dname(), A: g.aname(), X: g.amount()} }})
	}
	total := 0
	for _, o := range opts {
		total += o.w
	}
	n := g.r.Intn(total)
	for _, o := range opts {
		if n < o.w {
			return o.fn()
		}
		n -= o.w
	}
	panic("unreachable")
}

func (g *Gen) govEvent() Event {
	signer := "authority"
	if g.r.Intn(6) == 0 {
		signer = pick(g.r, []string{"other", "bad", "module"})
	}
	decs := func(valid []string) string {
		if g.r.Intn(8) == 0 {
			return pick(g.r, []string{"nil", "-1", "-" + ONE, "0", ONE, "1" + ONE, "1000000000000000000000000000000000000"})
		}
		return decStr(pick(g.r, valid))
	}
	switch g.r.Intn(10) {
	case 0, 1:
		return Event{Ev: "GovCreate", Signer: signer, Legacy: g.r.Intn(4) == 0, A: pick(g.r, append(g.w.Denoms(), "x", "")),
			Weight: decs([]string{"0", "0.5", "1", "2"}), WMin: decs([]string{"0", "0.1", "0.5"}), WMax: decs([]string{"1", "2", "5"}),
			Take: decs([]string{"0", "0.1", "0.5", "0.999999999999999999"}), Rate: decs([]string{"1", "0.5", "0.9", "1.5"}), ChgInt: pick(g.r, []int64{0, 0, 1, 3, 10, -1})}
	case 2, 3, 4, 5:
		return Event{Ev: "GovUpdate", Signer: signer, Legacy: g.r.Intn(4) == 0, A: g.aname(),
			Weight: decs([]string{"0", "0.5", "1", "2"}), WMin: decs([]string{"0", "0.1", "0.5"}), WMax: decs([]string{"1", "2", "5"}),
			Take: decs([]string{"0", "0.1", "0.5", "0.999999999999999999"}), Rate: decs([]string{"1", "0.5", "0.9", "1.5"}), ChgInt: pick(g.r, []int64{0, 0, 1, 3, 10, -1})}
	case 6:
		return Event{Ev: "GovDelete", Signer: signer, Legacy: g.r.Intn(4) == 0, A: g.aname()}
	default:
		return Event{Ev: "GovParams", Signer: signer, Delay: pick(g.r, []int64{0, 1, 5, 100, -1}), Interval: pick(g.r, []int64{0, 1, 2, 3, 10, 300, -1}),
			Last: pick(g.r, []int64{-1, 0, g.w.Project(g.w.Ctx).Now, g.w.Project(g.w.Ctx).Now - 3, g.w.Project(g.w.Ctx).Now + 5})}
	}
}

// DefaultCfg draws a world configuration for a family.
func DefaultCfg(r *rand.Rand, family string, big bool, clean bool) WorldCfg {
	cfg := WorldCfg{NVal: 3, NDel: 3, Delay: 0, Interval: pick(r, []int64{2, 3, 5}), LastClaim: -1, Unbonding: pick(r, []int64{1, 2, 5, 7}),
		SelfStake: "5000000", UserFunds: "1000000000", Commission: "0"}
	if big {
		cfg.UserFunds = "100000000000000000000000000000000"
	}
	takes := []string{"0", "0", "0.1", "0.5", "0.000001"}
	weights := []string{"1", "0.5", "2", "0.1"}
	if family == "shares" || family == "unbond" || family == "redeleg" {
		takes = []string{"0", "0", "0", "0.5", "0.1"}
	}
	if family == "rewards" {
		takes = []string{"0", "0", "0", "0", "0.1"} // take-rate deductions change token values under accrued rewards (C13 excludes those)
		if clean {
			takes = []string{"0"}
		}
	}
	for i, d := range []string{"ast0", "ast1"} {
		w := pick(r, weights)
		a := AssetCfg{Denom: d, Weight: w, WMin: "0", WMax: "5", Take: pick(r, takes), Start: 0, Rate: "1", ChgInt: 0, LastChg: 0}
		if family == "rewards" || family == "full" || family == "genesis" || family == "takerate" {
			if r.Intn(3) == 0 {
				a.Rate, a.ChgInt = pick(r, []string{"0.5", "0.9", "1.5"}), pick(r, []int64{2, 3, 7})
				a.WMin, a.WMax = pick(r, []string{"0", "0.1"}), pick(r, []string{"5", "2"})
			}
		}
		if i == 1 && (family == "power" || family == "full" || family == "takerate" || family == "rewards") && r.Intn(3) == 0 {
			a.Start = pick(r, []int64{3, 10, 40}) // in warm-up at genesis
			a.LastChg = a.Start
		}
		cfg.Assets = append(cfg.Assets, a)
	}
	if family == "takerate" {
		cfg.Interval = pick(r, []int64{2, 3, 5, 10, 20})
		if r.Intn(5) < 2 {
			// only an asset in warm-up carries a take rate: nothing is chargeable until it starts
			cfg.Assets[0].Take = "0"
			cfg.Assets[1].Take = pick(r, []string{"0.1", "0.5"})
			cfg.Assets[1].Start = pick(r, []int64{40, 80, 150})
			cfg.Assets[1].LastChg = cfg.Assets[1].Start
		}
	}
	if family == "gov" && r.Intn(2) == 0 {
		cfg.Assets = cfg.Assets[:1]
	}
	if family == "power" {
		cfg.Commission = pick(r, []string{"0", "0.1"})
	}
	return cfg
}

func familyProbes(family string) ([]string, int) {
	switch family {
	case "unbond":
		return []string{"queries", "liveness"}, 3
	case "redeleg":
		return []string{"redeleg", "liveness", "queries"}, 3
	case "shares":
		return []string{"liveness"}, 1
	case "rewards":
		return []string{"liveness", "claimAll"}, 1
	case "power":
		return []string{"supply"}, 1
	case "full":
		return []string{"liveness", "claimAll", "queries", "redeleg", "supply"}, 4
	case "genesis":
		return []string{"liveness"}, 5
	case "takerate":
		return []string{"liveness"}, 3
	}
	return []string{}, 1
}

// RunSchedule executes a schedule on a fresh world, writing the trace.
// If gen != nil events are drawn from it (and appended to s.Events) until n events were executed.
func RunSchedule(w *World, s *Schedule, tw *TraceWriter, gen *Gen, n int) {
	pc := probeCfg(s.Probes, "")
	if funds, ok := new(big.Int).SetString(w.Cfg.UserFunds, 10); ok && funds.Cmp(new(big.Int).Exp(big.NewInt(10), big.NewInt(25), nil)) > 0 {
		pc.BigAmt = "1000000000000000000000000"
	}
	st := w.Project(w.Ctx)
	cfg := w.Cfg
	tw.Write(Record{I: 0, Ev: "Init", Args: Event{Ev: "Init"}, Res: Result{Ok: true}, Post: &st, Probes: []Probe{}, Mirror: []Mirror{}, Cfg: &cfg, Trace: s.Name})
	i := 0
	for {
		var e Event
		if gen != nil {
			if i >= n {
				break
			}
			e = w.resolve(gen.Next())
			s.Events = append(s.Events, e)
		} else {
			if i >= len(s.Events) {
				break
			}
			e = w.resolve(s.Events[i])
		}
		i++
		if e.Branch {
			res, _, ps := w.branchExec(e, true)
			tw.Write(Record{I: i, Ev: e.Ev, Args: e, Res: res, Post: ps, Probes: []Probe{}, Mirror: []Mirror{}})
			continue
		}
		mir := w.ExecMirror(e)
		res := w.ExecDet(e, s.Det)
		post := w.Project(w.Ctx)
		rec := Record{I: i, Ev: e.Ev, Args: e, Res: res, Post: &post, Probes: []Probe{}, Mirror: mir}
		every := s.Every
		if every < 1 {
			every = 1
		}
		if e.Ev != "BeginBlock" && (i%every == 0 || e.Ev == "SlashHook" || e.Ev == "RealSlash") {
			rec.Probes = w.RunProbes(pc, i)
		}
		tw.Write(rec)
		if (e.Ev == "EndBlock" || e.Ev == "StakingEndBlock") && !res.Ok {
			break // the chain has halted
		}
	}
}

var _ = strings.Join
var _ = authtypes.FeeCollectorName
var _ = types.ModuleName
