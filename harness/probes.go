package harness

// probes.go — non-destructive probes: operations run on a discarded branch of the current state,
// whose outcome is logged for the specification to judge (C04, C05, C12, C15, C20).

import (
	"encoding/json"
	"fmt"
	"math/rand"
	"strings"

	"cosmossdk.io/math"
	sdk "github.com/cosmos/cosmos-sdk/types"
	"github.com/cosmos/cosmos-sdk/types/query"
	authtypes "github.com/cosmos/cosmos-sdk/x/auth/types"
	banktypes "github.com/cosmos/cosmos-sdk/x/bank/types"

	"github.com/terra-money/alliance/x/alliance/bindings"
	bindingtypes "github.com/terra-money/alliance/x/alliance/bindings/types"
	"github.com/terra-money/alliance/x/alliance/types"
)

type QItem struct {
	D   string `json:"d"`
	V   string `json:"v"`
	Src string `json:"src"`
	Dst string `json:"dst"`
	A   string `json:"a"`
	X   string `json:"x"`
	T   int64  `json:"t"`
	Sh  string `json:"sh"`
}

type Probe struct {
	Kind  string  `json:"kind"`
	D     string  `json:"d"`
	V     string  `json:"v"`
	Dst   string  `json:"dst"`
	A     string  `json:"a"`
	X     string  `json:"x"`
	Order string  `json:"order"`
	Limit int     `json:"limit"`
	Ok    bool    `json:"ok"`
	Err   string  `json:"err"`
	ErrC  string  `json:"errc"` // error class, see errClass
	Panic bool    `json:"panic"`
	Paid  []Amt   `json:"paid"`
	Items []QItem `json:"items"`
	// for claimAll: per-position success, in the order claimed
	Oks []bool `json:"oks"`
	// generic extra values
	Val  string            `json:"val"`
	Vals map[string]string `json:"vals"`
}

type ProbeCfg struct {
	Liveness bool // delegate / claim / exit probes (C05), undelegate bal+1 (C04/C20)
	ClaimAll bool // claim-all in three orders (C12)
	Queries  bool // query responses (C20)
	Redeleg  bool // onward-redelegation guard probes (C15)
	Supply   bool // bank supply queries (C11)
	BigAmt   string
}

func (w *World) branch(fn func(ctx sdk.Context) error) (ok bool, errs string, pan bool) {
	cctx, _ := w.Ctx.CacheContext()
	defer func() {
		if r := recover(); r != nil {
			ok, errs, pan = false, fmt.Sprint(r), true
		}
	}()
	if err := fn(cctx); err != nil {
		return false, err.Error(), false
	}
	return true, "", false
}

func (w *World) balDelta(ctx sdk.Context, a sdk.AccAddress, before sdk.Coins) []Amt {
	after := w.App.BankKeeper.GetAllBalances(ctx, a)
	diff, _ := after.SafeSub(before...)
	out := []Amt{}
	for _, c := range diff {
		if !c.Amount.IsZero() {
			out = append(out, Amt{c.Denom, c.Amount.String()})
		}
	}
	return out
}

type position struct {
	d     sdk.AccAddress
	v     sdk.ValAddress
	a     string
	bal   math.Int
	balOk bool
}

func (w *World) positions(ctx sdk.Context) []position {
	var out []position
	must(w.App.AllianceKeeper.IterateDelegations(ctx, func(d types.Delegation) bool {
		da, _ := sdk.AccAddressFromBech32(d.DelegatorAddress)
		va, _ := sdk.ValAddressFromBech32(d.ValidatorAddress)
		p := position{d: da, v: va, a: d.Denom}
		func() {
			defer func() { _ = recover() }()
			r, err := w.QS.AllianceDelegation(ctx, &types.QueryAllianceDelegationRequest{DelegatorAddr: d.DelegatorAddress, ValidatorAddr: d.ValidatorAddress, Denom: d.Denom})
			if err == nil {
				p.bal, p.balOk = r.Delegation.Balance.Amount, true
			}
		}()
		out = append(out, p)
		return false
	}))
	return out
}

// errClass maps an error text to a coarse class the specification can compare (TLA+ has no substring operator)
func errClass(err string) string {
	switch {
	case err == "":
		return ""
	case strings.Contains(err, "insufficient funds"):
		return "funds"
	case strings.Contains(err, "division by zero"):
		return "divzero"
	case strings.Contains(err, "insufficient delegation shares"):
		return "shares"
	case strings.Contains(err, "insufficient tokens"):
		return "tokens"
	case strings.Contains(err, "negative coin amount"):
		return "negcoin"
	case strings.Contains(err, "Int overflow"):
		return "overflow"
	case strings.Contains(err, "out of bound"):
		return "bound"
	case strings.Contains(err, "redelegation to this validator already in progress"):
		return "transitive"
	case strings.Contains(err, "not whitelisted") || strings.Contains(err, "alliance asset is not") || strings.Contains(err, "does not exist in alliance whitelist"):
		return "noasset"
	case strings.Contains(err, "does not exist") && strings.Contains(err, "validator with address"):
		return "novalidator"
	}
	return "other"
}

func (w *World) RunProbes(pc ProbeCfg, step int) []Probe {
	ps := w.runProbes(pc, step)
	for i := range ps {
		ps[i].ErrC = errClass(ps[i].Err)
	}
	return ps
}

func (w *World) runProbes(pc ProbeCfg, step int) []Probe {
	ps := []Probe{}
	ctx, _ := w.Ctx.CacheContext() // read-only probes run on a discarded branch too
	pos := w.positions(ctx)
	if pc.Liveness {
		// entering: the last delegator delegates 1 unit / a large amount of every asset to every validator
		d := w.Dels[len(w.Dels)-1]
		for _, va := range w.Vals {
			if _, err := w.App.StakingKeeper.GetValidator(ctx, va); err != nil {
				continue
			}
			for _, as := range w.App.AllianceKeeper.GetAllAssets(ctx) {
				for _, x := range []string{"1", pc.BigAmt} {
					if x == "" {
						continue
					}
					amt := mustInt(x)
					if w.App.BankKeeper.GetBalance(ctx, d, as.Denom).Amount.LT(amt) {
						continue
					}
					p := Probe{Kind: "delegate", D: w.Name(d.String()), V: w.Name(va.String()), A: as.Denom, X: x}
					p.Ok, p.Err, p.Panic = w.branch(func(c sdk.Context) error {
						_, err := w.MS.Delegate(c, types.NewMsgDelegate(d.String(), va.String(), sdk.NewCoin(as.Denom, amt)))
						return err
					})
					ps = append(ps, p)
				}
			}
		}
		for _, po := range pos {
			po := po
			// claim
			p := Probe{Kind: "claim", D: w.Name(po.d.String()), V: w.Name(po.v.String()), A: po.a}
			p.Ok, p.Err, p.Panic = w.branch(func(c sdk.Context) error {
				before := w.App.BankKeeper.GetAllBalances(c, po.d)
				_, err := w.MS.ClaimDelegationRewards(c, types.NewMsgClaimDelegationRewards(po.d.String(), po.v.String(), po.a))
				if err == nil {
					p.Paid = w.balDelta(c, po.d, before)
				}
				return err
			})
			ps = append(ps, p)
			if !po.balOk {
				continue
			}
			// full exit at the reported balance
			if po.bal.IsPositive() {
				p := Probe{Kind: "exit", D: w.Name(po.d.String()), V: w.Name(po.v.String()), A: po.a, X: po.bal.String()}
				p.Ok, p.Err, p.Panic = w.branch(func(c sdk.Context) error {
					_, err := w.MS.Undelegate(c, types.NewMsgUndelegate(po.d.String(), po.v.String(), sdk.NewCoin(po.a, po.bal)))
					return err
				})
				ps = append(ps, p)
			}
			// more than the reported balance must be refused
			{
				x := po.bal.AddRaw(1)
				p := Probe{Kind: "undelPlus", D: w.Name(po.d.String()), V: w.Name(po.v.String()), A: po.a, X: x.String()}
				p.Ok, p.Err, p.Panic = w.branch(func(c sdk.Context) error {
					_, err := w.MS.Undelegate(c, types.NewMsgUndelegate(po.d.String(), po.v.String(), sdk.NewCoin(po.a, x)))
					return err
				})
				ps = append(ps, p)
			}
		}
	}
	if pc.ClaimAll && len(pos) > 0 {
		for _, order := range []string{"fwd", "rev", "shuf"} {
			idx := make([]int, len(pos))
			for i := range idx {
				idx[i] = i
			}
			switch order {
			case "rev":
				for i, j := 0, len(idx)-1; i < j; i, j = i+1, j-1 {
					idx[i], idx[j] = idx[j], idx[i]
				}
			case "shuf":
				r := rand.New(rand.NewSource(int64(step)*7919 + 13))
				r.Shuffle(len(idx), func(i, j int) { idx[i], idx[j] = idx[j], idx[i] })
			}
			p := Probe{Kind: "claimAll", Order: order, Oks: []bool{}, Items: []QItem{}}
			pool := authtypes.NewModuleAddress(types.RewardsPoolName)
			cctx, _ := w.Ctx.CacheContext()
			before := w.App.BankKeeper.GetAllBalances(cctx, pool)
			p.Ok = true
			for _, i := range idx {
				po := pos[i]
				ok := true
				func() {
					defer func() {
						if r := recover(); r != nil {
							ok = false
							p.Panic = true
							p.Err = fmt.Sprint(r)
						}
					}()
					c2, write := cctx.CacheContext()
					_, err := w.MS.ClaimDelegationRewards(c2, types.NewMsgClaimDelegationRewards(po.d.String(), po.v.String(), po.a))
					if err != nil {
						ok = false
						p.Err = err.Error()
					} else {
						write()
					}
				}()
				p.Oks = append(p.Oks, ok)
				p.Items = append(p.Items, QItem{D: w.Name(po.d.String()), V: w.Name(po.v.String()), A: po.a})
				if !ok {
					p.Ok = false
				}
			}
			after := w.App.BankKeeper.GetAllBalances(cctx, pool)
			paid, _ := before.SafeSub(after...)
			p.Paid = amts(paid)
			ps = append(ps, p)
		}
	}
	if pc.Redeleg {
		// for every position, try to redelegate 1 unit to every other validator
		for _, po := range pos {
			po := po
			for _, dst := range w.Vals {
				if dst.Equals(po.v) {
					continue
				}
				dst := dst
				p := Probe{Kind: "redelegate", D: w.Name(po.d.String()), V: w.Name(po.v.String()), Dst: w.Name(dst.String()), A: po.a, X: "1"}
				p.Ok, p.Err, p.Panic = w.branch(func(c sdk.Context) error {
					_, err := w.MS.Redelegate(c, types.NewMsgRedelegate(po.d.String(), po.v.String(), dst.String(), sdk.NewCoin(po.a, math.OneInt())))
					return err
				})
				ps = append(ps, p)
			}
		}
	}
	if pc.Queries {
		ps = append(ps, w.queryProbes(ctx, pos)...)
	}
	if pc.Supply {
		ps = append(ps, w.supplyProbes(ctx)...)
	}
	return ps
}

func (w *World) unbItems(us []types.UnbondingDelegation) []QItem {
	out := []QItem{}
	for _, u := range us {
		out = append(out, QItem{V: w.Name(u.ValidatorAddress), A: u.Denom, X: u.Amount.String(), T: rel(u.CompletionTime)})
	}
	return out
}

func (w *World) redItems(rs []types.RedelegationEntry) []QItem {
	out := []QItem{}
	for _, r := range rs {
		out = append(out, QItem{D: w.Name(r.DelegatorAddress), Src: w.Name(r.SrcValidatorAddress), Dst: w.Name(r.DstValidatorAddress), A: r.Balance.Denom, X: r.Balance.Amount.String(), T: rel(r.CompletionTime)})
	}
	return out
}

func (w *World) delItems(rs []types.DelegationResponse) []QItem {
	out := []QItem{}
	for _, r := range rs {
		out = append(out, QItem{D: w.Name(r.Delegation.DelegatorAddress), V: w.Name(r.Delegation.ValidatorAddress), A: r.Delegation.Denom, X: r.Balance.Amount.String(), Sh: rawDec(r.Delegation.Shares)})
	}
	return out
}

func guard(p *Probe, fn func() error) {
	defer func() {
		if r := recover(); r != nil {
			p.Ok, p.Panic, p.Err = false, true, fmt.Sprint(r)
		}
	}()
	if err := fn(); err != nil {
		p.Ok, p.Err = false, err.Error()
		return
	}
	p.Ok = true
}

func (w *World) queryProbes(ctx sdk.Context, pos []position) []Probe {
	ps := []Probe{}
	denoms := []string{}
	for _, a := range w.App.AllianceKeeper.GetAllAssets(ctx) {
		denoms = append(denoms, a.Denom)
	}
	denoms = append(denoms, "nosuch")
	for _, d := range w.Dels {
		d := d
		{
			p := Probe{Kind: "qUnbByDel", D: w.Name(d.String())}
			guard(&p, func() error {
				r, err := w.QS.AllianceUnbondingsByDelegator(ctx, &types.QueryAllianceUnbondingsByDelegatorRequest{DelegatorAddr: d.String()})
				if err == nil {
					p.Items = w.unbItems(r.Unbondings)
				}
				return err
			})
			ps = append(ps, p)
		}
		for _, a := range denoms {
			a := a
			p := Probe{Kind: "qUnbByDenomDel", D: w.Name(d.String()), A: a}
			guard(&p, func() error {
				r, err := w.QS.AllianceUnbondingsByDenomAndDelegator(ctx, &types.QueryAllianceUnbondingsByDenomAndDelegatorRequest{DelegatorAddr: d.String(), Denom: a})
				if err == nil {
					p.Items = w.unbItems(r.Unbondings)
				}
				return err
			})
			ps = append(ps, p)
			for _, va := range w.Vals {
				va := va
				p := Probe{Kind: "qUnb", D: w.Name(d.String()), V: w.Name(va.String()), A: a}
				guard(&p, func() error {
					r, err := w.QS.AllianceUnbondings(ctx, &types.QueryAllianceUnbondingsRequest{DelegatorAddr: d.String(), ValidatorAddr: va.String(), Denom: a})
					if err == nil {
						p.Items = w.unbItems(r.Unbondings)
					}
					return err
				})
				ps = append(ps, p)
			}
			for _, limit := range []int{0, 1, 2} {
				limit := limit
				p := Probe{Kind: "qRed", D: w.Name(d.String()), A: a, Limit: limit}
				guard(&p, func() error {
					items, err := paginate(limit, func(pr *query.PageRequest) ([]QItem, *query.PageResponse, error) {
						r, err := w.QS.AllianceRedelegations(ctx, &types.QueryAllianceRedelegationsRequest{DelegatorAddr: d.String(), Denom: a, Pagination: pr})
						if err != nil {
							return nil, nil, err
						}
						return w.redItems(r.Redelegations), r.Pagination, nil
					})
					p.Items = items
					return err
				})
				ps = append(ps, p)
			}
		}
		for _, limit := range []int{0, 1, 2} {
			limit := limit
			p := Probe{Kind: "qRedByDel", D: w.Name(d.String()), Limit: limit}
			guard(&p, func() error {
				items, err := paginate(limit, func(pr *query.PageRequest) ([]QItem, *query.PageResponse, error) {
					r, err := w.QS.AllianceRedelegationsByDelegator(ctx, &types.QueryAllianceRedelegationsByDelegatorRequest{DelegatorAddr: d.String(), Pagination: pr})
					if err != nil {
						return nil, nil, err
					}
					return w.redItems(r.Redelegations), r.Pagination, nil
				})
				p.Items = items
				return err
			})
			ps = append(ps, p)
			p2 := Probe{Kind: "qDelsByDel", D: w.Name(d.String()), Limit: limit}
			guard(&p2, func() error {
				items, err := paginate(limit, func(pr *query.PageRequest) ([]QItem, *query.PageResponse, error) {
					r, err := w.QS.AlliancesDelegation(ctx, &types.QueryAlliancesDelegationsRequest{DelegatorAddr: d.String(), Pagination: pr})
					if err != nil {
						return nil, nil, err
					}
					return w.delItems(r.Delegations), r.Pagination, nil
				})
				p2.Items = items
				return err
			})
			ps = append(ps, p2)
		}
		for _, va := range w.Vals {
			va := va
			p := Probe{Kind: "qDelsByDelVal", D: w.Name(d.String()), V: w.Name(va.String())}
			guard(&p, func() error {
				items, err := paginate(0, func(pr *query.PageRequest) ([]QItem, *query.PageResponse, error) {
					r, err := w.QS.AlliancesDelegationByValidator(ctx, &types.QueryAlliancesDelegationByValidatorRequest{DelegatorAddr: d.String(), ValidatorAddr: va.String(), Pagination: pr})
					if err != nil {
						return nil, nil, err
					}
					return w.delItems(r.Delegations), r.Pagination, nil
				})
				p.Items = items
				return err
			})
			ps = append(ps, p)
		}
	}
	for _, limit := range []int{0, 2} {
		limit := limit
		p := Probe{Kind: "qAllDels", Limit: limit}
		guard(&p, func() error {
			items, err := paginate(limit, func(pr *query.PageRequest) ([]QItem, *query.PageResponse, error) {
				r, err := w.QS.AllAlliancesDelegations(ctx, &types.QueryAllAlliancesDelegationsRequest{Pagination: pr})
				if err != nil {
					return nil, nil, err
				}
				return w.delItems(r.Delegations), r.Pagination, nil
			})
			p.Items = items
			return err
		})
		ps = append(ps, p)
	}
	// contract-facing bindings, compared with the gRPC answers by the specification
	k := w.App.AllianceKeeper
	cq := bindings.CustomQuerier(bindings.NewAllianceQueryPlugin(&k))
	for _, po := range pos {
		po := po
		p := Probe{Kind: "bindDelegation", D: w.Name(po.d.String()), V: w.Name(po.v.String()), A: po.a}
		guard(&p, func() error {
			req, _ := json.Marshal(bindingtypes.AllianceQuery{Delegation: &bindingtypes.Delegation{Denom: po.a, Delegator: po.d.String(), Validator: po.v.String()}})
			bz, err := cq(ctx, req)
			if err != nil {
				return err
			}
			var r bindingtypes.DelegationResponse
			if err := json.Unmarshal(bz, &r); err != nil {
				return err
			}
			p.Val = r.Amount
			p.Vals = map[string]string{"d": w.Name(r.Delegator), "v": w.Name(r.Validator), "a": r.Denom}
			return nil
		})
		ps = append(ps, p)
		p2 := Probe{Kind: "bindRewards", D: w.Name(po.d.String()), V: w.Name(po.v.String()), A: po.a}
		guard(&p2, func() error {
			c, _ := ctx.CacheContext()
			req, _ := json.Marshal(bindingtypes.AllianceQuery{DelegationRewards: &bindingtypes.DelegationRewards{Denom: po.a, Delegator: po.d.String(), Validator: po.v.String()}})
			bz, err := cq(c, req)
			if err != nil {
				return err
			}
			var r bindingtypes.DelegationRewardsResponse
			if err := json.Unmarshal(bz, &r); err != nil {
				return err
			}
			p2.Paid = amts(r.Rewards)
			return nil
		})
		ps = append(ps, p2)
		p3 := Probe{Kind: "qRewards", D: w.Name(po.d.String()), V: w.Name(po.v.String()), A: po.a}
		guard(&p3, func() error {
			c, _ := ctx.CacheContext()
			r, err := w.QS.AllianceDelegationRewards(c, &types.QueryAllianceDelegationRewardsRequest{DelegatorAddr: po.d.String(), ValidatorAddr: po.v.String(), Denom: po.a})
			if err != nil {
				return err
			}
			p3.Paid = amts(r.Rewards)
			return nil
		})
		ps = append(ps, p3)
	}
	for _, a := range w.App.AllianceKeeper.GetAllAssets(ctx) {
		a := a
		p := Probe{Kind: "bindAlliance", A: a.Denom}
		guard(&p, func() error {
			req, _ := json.Marshal(bindingtypes.AllianceQuery{Alliance: &bindingtypes.Alliance{Denom: a.Denom}})
			bz, err := cq(ctx, req)
			if err != nil {
				return err
			}
			var r bindingtypes.AllianceResponse
			if err := json.Unmarshal(bz, &r); err != nil {
				return err
			}
			p.Vals = map[string]string{
				"a": r.Denom, "weight": r.RewardWeight, "take": r.TakeRate, "total": r.TotalTokens, "vshares": r.TotalValidatorShares,
				"start": fmt.Sprint(r.RewardStartTime), "rate": r.RewardChangeRate, "lastChg": fmt.Sprint(r.LastRewardChangeTime),
				"wmin": r.RewardWeightRange.Min, "wmax": r.RewardWeightRange.Max, "init": fmt.Sprint(r.IsInitialized),
				// the gRPC view of the same asset, in the same textual form
				"g_weight": a.RewardWeight.String(), "g_take": a.TakeRate.String(), "g_total": a.TotalTokens.String(), "g_vshares": a.TotalValidatorShares.String(),
				"g_rate": a.RewardChangeRate.String(), "g_wmin": a.RewardWeightRange.Min.String(), "g_wmax": a.RewardWeightRange.Max.String(),
				"g_start_unix": fmt.Sprint(a.RewardStartTime.Unix()), "g_start_nanos": fmt.Sprint(a.RewardStartTime.UnixNano()),
				"g_lastChg_unix": fmt.Sprint(a.LastRewardChangeTime.Unix()), "g_lastChg_nanos": fmt.Sprint(a.LastRewardChangeTime.UnixNano()),
				"g_init":       fmt.Sprint(a.IsInitialized),
				"g_start_nsec": fmt.Sprint(a.RewardStartTime.Nanosecond()), "g_lastChg_nsec": fmt.Sprint(a.LastRewardChangeTime.Nanosecond()),
			}
			return nil
		})
		ps = append(ps, p)
	}
	return ps
}

// paginate collects all pages with the given page size (0 = no pagination request).
func paginate(limit int, fn func(pr *query.PageRequest) ([]QItem, *query.PageResponse, error)) ([]QItem, error) {
	if limit == 0 {
		items, _, err := fn(nil)
		return items, err
	}
	out := []QItem{}
	var key []byte
	for n := 0; n < 1000; n++ {
		items, pr, err := fn(&query.PageRequest{Key: key, Limit: uint64(limit)})
		if err != nil {
			return out, err
		}
		out = append(out, items...)
		if pr == nil || len(pr.NextKey) == 0 {
			return out, nil
		}
		key = pr.NextKey
	}
	return out, fmt.Errorf("pagination did not terminate")
}

func (w *World) supplyProbes(ctx sdk.Context) []Probe {
	ps := []Probe{}
	p := Probe{Kind: "supplyOf", A: BondDenom}
	guard(&p, func() error {
		r, err := w.App.BankKeeper.SupplyOf(ctx, &banktypes.QuerySupplyOfRequest{Denom: BondDenom})
		if err == nil {
			p.Val = r.Amount.Amount.String()
		}
		return err
	})
	ps = append(ps, p)
	p2 := Probe{Kind: "totalSupply"}
	guard(&p2, func() error {
		r, err := w.App.BankKeeper.TotalSupply(ctx, &banktypes.QueryTotalSupplyRequest{})
		if err == nil {
			p2.Val = r.Supply.AmountOf(BondDenom).String()
		}
		return err
	})
	ps = append(ps, p2)
	// module account's own bond-denom balance
	p3 := Probe{Kind: "moduleBond", Val: w.App.BankKeeper.GetBalance(ctx, authtypes.NewModuleAddress(types.ModuleName), BondDenom).Amount.String(), Ok: true}
	ps = append(ps, p3)
	return ps
}
