package harness

// trace.go — ndjson trace records: one per executed event, with arguments, result, full projected
// post-state and the probes evaluated on discarded branches of that post-state.

import (
	"bufio"
	"bytes"
	"encoding/json"
	"os"
)

type Record struct {
	I      int     `json:"i"`
	Ev     string  `json:"ev"`
	Args   Event   `json:"args"`
	Res    Result  `json:"res"`
	Post   *PState `json:"post,omitempty"`
	Probes []Probe `json:"probes"`
	// C18 lock-step: the same event executed on the sibling branch whose module store was exported, wiped and re-imported
	Mirror []Mirror  `json:"mirror"`
	Cfg    *WorldCfg `json:"cfg,omitempty"`
	Trace  string    `json:"trace,omitempty"` // trace id on the init record
}

type Mirror struct {
	Res  Result `json:"res"`
	Post PState `json:"post"`
}

type TraceWriter struct {
	f *os.File
	b *bufio.Writer
	n int
}

func NewTraceWriter(path string) *TraceWriter {
	f, err := os.Create(path)
	must(err)
	return &TraceWriter{f: f, b: bufio.NewWriterSize(f, 1<<20)}
}

func (tw *TraceWriter) Write(r Record) {
	bz, err := json.Marshal(r)
	must(err)
	// TLC's JSON reader has no null: nil maps become {}, nil slices []
	bz = bytes.ReplaceAll(bz, []byte(`"vals":null`), []byte(`"vals":{}`))
	bz = bytes.ReplaceAll(bz, []byte(`:null`), []byte(`:[]`))
	tw.b.Write(bz)
	tw.b.WriteByte('\n')
	tw.n++
}

func (tw *TraceWriter) Close() {
	tw.b.Flush()
	tw.f.Close()
}
