package harness

// project.go — the projection of the real stores onto the abstract state of spec/Alliance.tla.
// Every quantity is a decimal string: integers as such, LegacyDec as its raw 10^18-scaled integer.
// Times are whole seconds relative to T0 (-1 = the zero time). Sequences follow store iteration order.

import (
	"sort"
	"time"

	"cosmossdk.io/math"
	storetypes "cosmossdk.io/store/types"
	"github.com/cosmos/cosmos-sdk/runtime"
	sdk "github.com/cosmos/cosmos-sdk/types"
	authtypes "github.com/cosmos/cosmos-sdk/x/auth/types"
	stakingtypes "github.com/cosmos/cosmos-sdk/x/staking/types"

	"github.com/terra-money/alliance/x/alliance/types"
)

type Amt struct {
	A string `json:"a"`
	X string `json:"x"`
}

type Hist struct {
	RD  string `json:"rd"`
	Al  string `json:"al"`
	Idx string `json:"idx"`
}

type PAsset struct {
	A       string `json:"a"`
	Weight  string `json:"weight"`
	WMin    string `json:"wmin"`
	WMax    string `json:"wmax"`
	Take    string `json:"take"`
	Total   string `json:"total"`
	VShares string `json:"vshares"`
	Start   int64  `json:"start"`
	Rate    string `json:"rate"`
	ChgInt  int64  `json:"chgInt"`
	LastChg int64  `json:"lastChg"`
	Init    bool   `json:"init"`
}

type PVal struct {
	V       string `json:"v"`
	VShares []Amt  `json:"vshares"`
	DShares []Amt  `json:"dshares"`
	Hist    []Hist `json:"hist"`
}

type PDel struct {
	D      string `json:"d"`
	V      string `json:"v"`
	A      string `json:"a"`
	Shares string `json:"shares"`
	Hist   []Hist `json:"hist"`
	LastH  int64  `json:"lastH"`
	// what the AllianceDelegation query reports for this position (C04, C20)
	Bal string `json:"bal"`
}

type PUnbEntry struct {
	D   string `json:"d"`
	V   string `json:"v"`
	A   string `json:"a"`
	Bal string `json:"bal"`
}

type PUnbBucket struct {
	T       int64       `json:"t"`
	D       string      `json:"d"`
	Entries []PUnbEntry `json:"entries"`
}

type PUnbIdx struct {
	V string `json:"v"`
	T int64  `json:"t"`
	A string `json:"a"`
	D string `json:"d"`
}

type PRedRec struct {
	// key
	D   string `json:"d"`
	A   string `json:"a"`
	Dst string `json:"dst"`
	T   int64  `json:"t"`
	// value
	RD   string `json:"rd"`
	RSrc string `json:"src"`
	RDst string `json:"rdst"`
	RA   string `json:"ra"`
	Bal  string `json:"bal"`
}

type PRedIdx struct {
	Src string `json:"src"`
	T   int64  `json:"t"`
	A   string `json:"a"`
	Dst string `json:"dst"`
	D   string `json:"d"`
}

type PRedQEntry struct {
	D   string `json:"d"`
	Src string `json:"src"`
	Dst string `json:"dst"`
	A   string `json:"a"`
	Bal string `json:"bal"`
}

type PRedQ struct {
	T       int64        `json:"t"`
	Entries []PRedQEntry `json:"entries"`
}

type PSnap struct {
	A     string `json:"a"`
	V     string `json:"v"`
	H     int64  `json:"h"`
	PrevW string `json:"prevW"`
	Hist  []Hist `json:"hist"`
}

type PBankUser struct {
	D     string `json:"d"`
	Coins []Amt  `json:"coins"`
}

type PBank struct {
	Custody    []Amt       `json:"custody"`
	Rewards    []Amt       `json:"rewards"`
	Fee        []Amt       `json:"fee"`
	Users      []PBankUser `json:"users"`
	SupplyBond string      `json:"supplyBond"`
	Donated    []Amt       `json:"donated"`
}

type PEnvVal struct {
	V         string `json:"v"`
	Status    string `json:"status"` // "bonded" | "unbonding" | "unbonded"
	Jailed    bool   `json:"jailed"`
	Tokens    string `json:"tokens"`
	DShares   string `json:"dshares"`   // Dec raw
	ModShares string `json:"modShares"` // Dec raw; "0" when the module has no delegation
	HasMod    bool   `json:"hasMod"`
	Pending   []Amt  `json:"pending"` // what x/distribution would pay the module on withdrawal now
}

type PEnv struct {
	Unbonding   int64     `json:"unbonding"`
	TotalBonded string    `json:"totalBonded"`
	Vals        []PEnvVal `json:"vals"`
}

type PParams struct {
	Delay    int64 `json:"delay"`
	Interval int64 `json:"interval"`
	Last     int64 `json:"last"`
}

type PState struct {
	Now    int64        `json:"now"`
	Height int64        `json:"height"`
	Params PParams      `json:"params"`
	Assets []PAsset     `json:"assets"`
	Vals   []PVal       `json:"vals"`
	Dels   []PDel       `json:"dels"`
	UnbQ   []PUnbBucket `json:"unbQ"`
	UnbIdx []PUnbIdx    `json:"unbIdx"`
	RedRec []PRedRec    `json:"redRec"`
	RedIdx []PRedIdx    `json:"redIdx"`
	RedQ   []PRedQ      `json:"redQ"`
	Flag   bool         `json:"flag"`
	Snaps  []PSnap      `json:"snaps"`
	Bank   PBank        `json:"bank"`
	Env    PEnv         `json:"env"`
	// the module's own registered invariants (compared, never trusted alone)
	InvBroken bool `json:"invBroken"`
}

func rawDec(d math.LegacyDec) string {
	if d.IsNil() {
		return "nil"
	}
	return d.BigInt().String()
}

func rawInt(i math.Int) string {
	if i.IsNil() {
		return "nil"
	}
	return i.String()
}

func durSecs(d time.Duration) int64 {
	if d%time.Second != 0 {
		panic("sub-second duration in state")
	}
	return int64(d / time.Second)
}

func amtsDec(cs sdk.DecCoins) []Amt {
	out := []Amt{}
	for _, c := range cs {
		out = append(out, Amt{c.Denom, rawDec(c.Amount)})
	}
	return out
}

func amts(cs sdk.Coins) []Amt {
	out := []Amt{}
	for _, c := range cs {
		if c.Amount.IsZero() {
			continue
		}
		out = append(out, Amt{c.Denom, c.Amount.String()})
	}
	return out
}

func hists(hs []types.RewardHistory) []Hist {
	out := []Hist{}
	for _, h := range hs {
		out = append(out, Hist{h.Denom, h.Alliance, rawDec(h.Index)})
	}
	return out
}

func (w *World) modAddr(name string) sdk.AccAddress { return authtypes.NewModuleAddress(name) }

// Project reads the abstract state from the real stores at ctx.
func (w *World) Project(ctx sdk.Context) PState {
	k := w.App.AllianceKeeper
	s := PState{Now: rel(ctx.BlockTime()), Height: ctx.BlockHeight()}
	qctx, _ := ctx.CacheContext() // queries create validator info records as a side effect; keep them off the real state
	p := k.GetParams(ctx)
	s.Params = PParams{durSecs(p.RewardDelayTime), durSecs(p.TakeRateClaimInterval), rel(p.LastTakeRateClaimTime)}

	s.Assets = []PAsset{}
	for _, a := range k.GetAllAssets(ctx) {
		s.Assets = append(s.Assets, PAsset{
			A: a.Denom, Weight: rawDec(a.RewardWeight), WMin: rawDec(a.RewardWeightRange.Min), WMax: rawDec(a.RewardWeightRange.Max),
			Take: rawDec(a.TakeRate), Total: rawInt(a.TotalTokens), VShares: rawDec(a.TotalValidatorShares),
			Start: rel(a.RewardStartTime), Rate: rawDec(a.RewardChangeRate), ChgInt: durSecs(a.RewardChangeInterval),
			LastChg: rel(a.LastRewardChangeTime), Init: a.IsInitialized,
		})
	}

	s.Vals = []PVal{}
	must(k.IterateAllianceValidatorInfo(ctx, func(va sdk.ValAddress, info types.AllianceValidatorInfo) bool {
		s.Vals = append(s.Vals, PVal{V: w.Name(va.String()), VShares: amtsDec(info.ValidatorShares), DShares: amtsDec(info.TotalDelegatorShares), Hist: hists(info.GlobalRewardHistory)})
		return false
	}))

	s.Dels = []PDel{}
	must(k.IterateDelegations(ctx, func(d types.Delegation) bool {
		pd := PDel{D: w.Name(d.DelegatorAddress), V: w.Name(d.ValidatorAddress), A: d.Denom, Shares: rawDec(d.Shares), Hist: hists(d.RewardHistory), LastH: int64(d.LastRewardClaimHeight), Bal: "err"}
		func() {
			defer func() { _ = recover() }()
			r, err := w.QS.AllianceDelegation(qctx, &types.QueryAllianceDelegationRequest{DelegatorAddr: d.DelegatorAddress, ValidatorAddr: d.ValidatorAddress, Denom: d.Denom})
			if err == nil {
				pd.Bal = r.Delegation.Balance.Amount.String()
			}
		}()
		s.Dels = append(s.Dels, pd)
		return false
	}))

	s.UnbQ = []PUnbBucket{}
	store := runtime.KVStoreAdapter(k.StoreService().OpenKVStore(ctx))
	{
		it := storetypes.KVStorePrefixIterator(store, types.UndelegationQueueKey)
		for ; it.Valid(); it.Next() {
			key := it.Key()
			t, err := types.ParseUndelegationQueueKeyForCompletionTime(key)
			must(err)
			// key = 0x24 | len(time) time | len(del) del
			off := 1
			off += 1 + int(key[off])
			dl := int(key[off])
			delAddr := sdk.AccAddress(key[off+1 : off+1+dl])
			var q types.QueuedUndelegation
			w.App.AppCodec().MustUnmarshal(it.Value(), &q)
			b := PUnbBucket{T: rel(t), D: w.Name(delAddr.String()), Entries: []PUnbEntry{}}
			for _, e := range q.Entries {
				b.Entries = append(b.Entries, PUnbEntry{D: w.Name(e.DelegatorAddress), V: w.Name(e.ValidatorAddress), A: e.Balance.Denom, Bal: e.Balance.Amount.String()})
			}
			s.UnbQ = append(s.UnbQ, b)
		}
		it.Close()
	}
	s.UnbIdx = []PUnbIdx{}
	{
		it := storetypes.KVStorePrefixIterator(store, types.UndelegationByValidatorIndexKey)
		for ; it.Valid(); it.Next() {
			f := lpFields(it.Key()[1:], 4)
			t, err := sdk.ParseTimeBytes(f[1])
			must(err)
			s.UnbIdx = append(s.UnbIdx, PUnbIdx{V: w.Name(sdk.ValAddress(f[0]).String()), T: rel(t), A: denomOf(f[2]), D: w.Name(sdk.AccAddress(f[3]).String())})
		}
		it.Close()
	}
	s.RedRec = []PRedRec{}
	{
		it := storetypes.KVStorePrefixIterator(store, types.RedelegationKey)
		for ; it.Valid(); it.Next() {
			key := it.Key()
			f, rest := lpFieldsRest(key[1:], 3)
			t, err := sdk.ParseTimeBytes(rest)
			must(err)
			var r types.Redelegation
			w.App.AppCodec().MustUnmarshal(it.Value(), &r)
			s.RedRec = append(s.RedRec, PRedRec{
				D: w.Name(sdk.AccAddress(f[0]).String()), A: denomOf(f[1]), Dst: w.Name(sdk.ValAddress(f[2]).String()), T: rel(t),
				RD: w.Name(r.DelegatorAddress), RSrc: w.Name(r.SrcValidatorAddress), RDst: w.Name(r.DstValidatorAddress), RA: r.Balance.Denom, Bal: r.Balance.Amount.String(),
			})
		}
		it.Close()
	}
	s.RedIdx = []PRedIdx{}
	{
		it := storetypes.KVStorePrefixIterator(store, types.RedelegationByValidatorIndexKey)
		for ; it.Valid(); it.Next() {
			f := lpFields(it.Key()[1:], 5)
			t, err := sdk.ParseTimeBytes(f[1])
			must(err)
			s.RedIdx = append(s.RedIdx, PRedIdx{Src: w.Name(sdk.ValAddress(f[0]).String()), T: rel(t), A: denomOf(f[2]), Dst: w.Name(sdk.ValAddress(f[3]).String()), D: w.Name(sdk.AccAddress(f[4]).String())})
		}
		it.Close()
	}
	s.RedQ = []PRedQ{}
	{
		it := storetypes.KVStorePrefixIterator(store, types.RedelegationQueueKey)
		for ; it.Valid(); it.Next() {
			t := types.ParseRedelegationQueueKey(it.Key())
			var q types.QueuedRedelegation
			w.App.AppCodec().MustUnmarshal(it.Value(), &q)
			b := PRedQ{T: rel(t), Entries: []PRedQEntry{}}
			for _, e := range q.Entries {
				b.Entries = append(b.Entries, PRedQEntry{D: w.Name(e.DelegatorAddress), Src: w.Name(e.SrcValidatorAddress), Dst: w.Name(e.DstValidatorAddress), A: e.Balance.Denom, Bal: e.Balance.Amount.String()})
			}
			s.RedQ = append(s.RedQ, b)
		}
		it.Close()
	}
	s.Flag = store.Has(types.AssetRebalanceQueueKey)

	s.Snaps = []PSnap{}
	k.IterateAllWeightChangeSnapshot(ctx, func(denom string, va sdk.ValAddress, h uint64, sn types.RewardWeightChangeSnapshot) bool {
		s.Snaps = append(s.Snaps, PSnap{A: denom, V: w.Name(va.String()), H: int64(h), PrevW: rawDec(sn.PrevRewardWeight), Hist: hists(sn.RewardHistories)})
		return false
	})

	// bank
	bk := w.App.BankKeeper
	s.Bank.Custody = amts(bk.GetAllBalances(ctx, w.modAddr(types.ModuleName)))
	s.Bank.Rewards = amts(bk.GetAllBalances(ctx, w.modAddr(types.RewardsPoolName)))
	s.Bank.Fee = amts(bk.GetAllBalances(ctx, w.modAddr(authtypes.FeeCollectorName)))
	s.Bank.Users = []PBankUser{}
	for _, d := range w.Dels {
		s.Bank.Users = append(s.Bank.Users, PBankUser{D: w.Name(d.String()), Coins: amts(bk.GetAllBalances(ctx, d))})
	}
	s.Bank.SupplyBond = bk.GetSupply(ctx, BondDenom).Amount.String()
	s.Bank.Donated = []Amt{}
	dk := make([]string, 0, len(w.Donated))
	for a := range w.Donated {
		dk = append(dk, a)
	}
	sort.Strings(dk)
	for _, a := range dk {
		s.Bank.Donated = append(s.Bank.Donated, Amt{a, w.Donated[a].String()})
	}

	// environment (x/staking, x/distribution as seen by the module)
	sk := w.App.StakingKeeper
	ut, err := sk.UnbondingTime(ctx)
	must(err)
	s.Env.Unbonding = durSecs(ut)
	tb, err := sk.TotalBondedTokens(ctx)
	must(err)
	s.Env.TotalBonded = tb.String()
	s.Env.Vals = []PEnvVal{}
	mod := w.modAddr(types.ModuleName)
	all := append([]sdk.ValAddress{}, w.Vals...)
	all = append(all, w.GenV)
	for _, va := range all {
		v, err := sk.GetValidator(ctx, va)
		if err != nil {
			s.Env.Vals = append(s.Env.Vals, PEnvVal{V: w.Name(va.String()), Status: "removed", Tokens: "0", DShares: "0", ModShares: "0", Pending: []Amt{}})
			continue
		}
		ev := PEnvVal{V: w.Name(va.String()), Jailed: v.Jailed, Tokens: v.Tokens.String(), DShares: rawDec(v.DelegatorShares), ModShares: "0", Pending: []Amt{}}
		switch v.Status {
		case stakingtypes.Bonded:
			ev.Status = "bonded"
		case stakingtypes.Unbonding:
			ev.Status = "unbonding"
		default:
			ev.Status = "unbonded"
		}
		if d, err := sk.GetDelegation(ctx, mod, va); err == nil {
			ev.HasMod = true
			ev.ModShares = rawDec(d.Shares)
			// pending rewards: what a withdrawal would pay right now, measured on a discarded branch
			func() {
				defer func() { _ = recover() }()
				cctx, _ := ctx.CacheContext()
				coins, err := w.App.DistrKeeper.WithdrawDelegationRewards(cctx, mod, va)
				if err == nil {
					ev.Pending = amts(coins)
				}
			}()
		}
		s.Env.Vals = append(s.Env.Vals, ev)
	}
	func() {
		defer func() { s.InvBroken = s.InvBroken || recover() != nil }()
		_, s.InvBroken = runAllInvariants(ctx, w)
	}()
	return s
}

// lpFields splits n length-prefixed fields.
func lpFields(b []byte, n int) [][]byte {
	f, _ := lpFieldsRest(b, n)
	return f
}

func lpFieldsRest(b []byte, n int) ([][]byte, []byte) {
	out := make([][]byte, 0, n)
	off := 0
	for i := 0; i < n; i++ {
		l := int(b[off])
		out = append(out, b[off+1:off+1+l])
		off += 1 + l
	}
	return out, b[off:]
}

// denomOf strips the null terminator of CreateDenomAddressPrefix.
func denomOf(b []byte) string {
	if len(b) > 0 && b[len(b)-1] == 0 {
		return string(b[:len(b)-1])
	}
	return string(b)
}
