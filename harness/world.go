package harness

// world.go — boots the real application (app.Setup, exactly as the repository's own tests do) and
// gives symbolic names to validators / delegators / denoms so that traces are readable and so that
// the order of names equals the byte order of the real addresses (store iteration order).

import (
	"bytes"
	"fmt"
	"sort"
	"testing"
	"time"

	"cosmossdk.io/math"
	sdk "github.com/cosmos/cosmos-sdk/types"
	teststaking "github.com/cosmos/cosmos-sdk/x/staking/testutil"
	stakingtypes "github.com/cosmos/cosmos-sdk/x/staking/types"

	allianceapp "github.com/terra-money/alliance/app"
	"github.com/terra-money/alliance/x/alliance/keeper"
	"github.com/terra-money/alliance/x/alliance/types"
)

const (
	BondDenom  = "stake"
	ExtraDenom = "rwd" // an extra reward denomination
)

// T0 is the harness epoch; all times in traces are whole seconds relative to it.
var T0 = time.Unix(1_700_000_000, 0).UTC()

// AssetCfg is one alliance asset placed by genesis (amounts are decimal strings of LegacyDec).
type AssetCfg struct {
	Denom    string `json:"a"`
	Weight   string `json:"weight"`
	WMin     string `json:"wmin"`
	WMax     string `json:"wmax"`
	Take     string `json:"take"`
	Start    int64  `json:"start"` // seconds relative to T0
	Rate     string `json:"rate"`
	ChgInt   int64  `json:"chgInt"`
	LastChg  int64  `json:"lastChg"`
	NoAtInit bool   `json:"-"`
}

// WorldCfg is the configuration of one world (the "init" record of a trace).
type WorldCfg struct {
	NVal       int        `json:"nval"`
	NDel       int        `json:"ndel"`
	Assets     []AssetCfg `json:"assets"`
	Delay      int64      `json:"delay"`    // RewardDelayTime, s
	Interval   int64      `json:"interval"` // TakeRateClaimInterval, s
	LastClaim  int64      `json:"last"`     // -1 = unset
	Unbonding  int64      `json:"unbonding"`
	SelfStake  string     `json:"selfStake"`
	UserFunds  string     `json:"userFunds"`
	Commission string     `json:"commission"`
}

type World struct {
	t     *testing.T
	App   *allianceapp.App
	Ctx   sdk.Context
	Cfg   WorldCfg
	Vals  []sdk.ValAddress // v0 < v1 < ... in byte order
	Cons  []sdk.ConsAddress
	Dels  []sdk.AccAddress // d0 < d1 < ...
	GenV  sdk.ValAddress   // the genesis validator of app.Setup ("vg")
	MS    types.MsgServer
	QS    types.QueryServer
	names map[string]string // bech32 -> symbolic
	// donated[a] — coins sent unsolicited to the custody account by the harness' Donate action.
	Donated map[string]math.Int
	// C18 lock-step: a sibling branch of the state in which the module store was exported, wiped and re-imported; every
	// later event is executed on both
	mirror    *sdk.Context
	mirrorDon map[string]math.Int
}

func dec(s string) math.LegacyDec { return math.LegacyMustNewDecFromStr(s) }

func mustInt(s string) math.Int {
	i, ok := math.NewIntFromString(s)
	if !ok {
		panic("bad int " + s)
	}
	return i
}

func rel(t time.Time) int64 {
	if t.IsZero() || t.Equal(time.Time{}) {
		return -1
	}
	d := t.Sub(T0)
	if d%time.Second != 0 {
		// report sub-second times as a distinguishable negative number; the harness never produces them
		panic(fmt.Sprintf("sub-second time in state: %v", t))
	}
	return int64(d / time.Second)
}

func abs(s int64) time.Time {
	if s == -1 {
		return time.Time{}
	}
	return T0.Add(time.Duration(s) * time.Second)
}

func secs(s int64) time.Duration { return time.Duration(s) * time.Second }

func NewWorld(t *testing.T, cfg WorldCfg) *World {
	app := allianceapp.Setup(t)
	ctx := app.BaseApp.NewContext(false).WithBlockTime(T0).WithBlockHeight(1)
	w := &World{t: t, App: app, Cfg: cfg, names: map[string]string{}, Donated: map[string]math.Int{}}

	// staking params: unbonding time
	sp, err := app.StakingKeeper.GetParams(ctx)
	must(err)
	sp.UnbondingTime = secs(cfg.Unbonding)
	sp.MaxValidators = 100
	must(app.StakingKeeper.SetParams(ctx, sp))

	// distribution: no community tax (as the repository's reward tests do)
	dp, err := app.DistrKeeper.Params.Get(ctx)
	must(err)
	dp.CommunityTax = math.LegacyZeroDec()
	must(app.DistrKeeper.Params.Set(ctx, dp))

	// alliance genesis
	var assets []types.AllianceAsset
	for _, a := range cfg.Assets {
		assets = append(assets, types.AllianceAsset{
			Denom:                a.Denom,
			RewardWeight:         dec(a.Weight),
			RewardWeightRange:    types.RewardWeightRange{Min: dec(a.WMin), Max: dec(a.WMax)},
			TakeRate:             dec(a.Take),
			TotalTokens:          math.ZeroInt(),
			TotalValidatorShares: math.LegacyZeroDec(),
			RewardStartTime:      abs(a.Start),
			RewardChangeRate:     dec(a.Rate),
			RewardChangeInterval: secs(a.ChgInt),
			LastRewardChangeTime: abs(a.LastChg),
			IsInitialized:        false,
		})
	}
	app.AllianceKeeper.InitGenesis(ctx, &types.GenesisState{
		Params: types.Params{RewardDelayTime: secs(cfg.Delay), TakeRateClaimInterval: secs(cfg.Interval), LastTakeRateClaimTime: abs(cfg.LastClaim)},
		Assets: assets,
	})

	// the module accounts exist from the first use on a real chain; create them up front so that a direct bank
	// transfer to the custody address (Donate) cannot create a plain account in their place
	app.AccountKeeper.GetModuleAccount(ctx, types.ModuleName)
	app.AccountKeeper.GetModuleAccount(ctx, types.RewardsPoolName)

	// genesis validator
	dd, err := app.StakingKeeper.GetAllDelegations(ctx)
	must(err)
	gv, err := sdk.ValAddressFromBech32(dd[0].ValidatorAddress)
	must(err)
	w.GenV = gv
	w.names[gv.String()] = "vg"

	// accounts: nVal operators + nDel delegators, sorted by bytes
	accs := allianceapp.AddTestAddrsIncremental(app, ctx, cfg.NVal+cfg.NDel, sdk.NewCoins())
	sort.Slice(accs, func(i, j int) bool { return bytes.Compare(accs[i], accs[j]) < 0 })
	pks := allianceapp.CreateTestPubKeys(cfg.NVal)
	self := mustInt(cfg.SelfStake)
	for i := 0; i < cfg.NVal; i++ {
		op := accs[i]
		va := sdk.ValAddress(op)
		v := teststaking.NewValidator(t, va, pks[i])
		cr := dec(cfg.Commission)
		v.Commission = stakingtypes.Commission{CommissionRates: stakingtypes.CommissionRates{Rate: cr, MaxRate: math.LegacyOneDec(), MaxChangeRate: math.LegacyZeroDec()}, UpdateTime: T0}
		v.Description.Moniker = fmt.Sprintf("v%d", i)
		v.MinSelfDelegation = math.ZeroInt()
		allianceapp.RegisterNewValidator(t, app, ctx, v)
		w.fund(ctx, op, sdk.NewCoins(sdk.NewCoin(BondDenom, self)))
		_, err := app.StakingKeeper.Delegate(ctx, op, self, stakingtypes.Unbonded, v, true)
		must(err)
		w.Vals = append(w.Vals, va)
		ca, err := v.GetConsAddr()
		must(err)
		w.Cons = append(w.Cons, ca)
		w.names[va.String()] = fmt.Sprintf("v%d", i)
		w.names[op.String()] = fmt.Sprintf("op%d", i)
	}
	funds := mustInt(cfg.UserFunds)
	for i := 0; i < cfg.NDel; i++ {
		a := accs[cfg.NVal+i]
		coins := sdk.NewCoins(sdk.NewCoin(BondDenom, funds))
		for _, as := range w.Denoms() {
			coins = coins.Add(sdk.NewCoin(as, funds))
		}
		w.fund(ctx, a, coins)
		w.Dels = append(w.Dels, a)
		w.names[a.String()] = fmt.Sprintf("d%d", i)
	}
	// Let x/staking settle the validator set for the new validators (power index was set at registration).
	_, err = app.StakingKeeper.ApplyAndReturnValidatorSetUpdates(ctx)
	must(err)
	// that settling raised the alliance rebalance flag through the staking hooks; worlds start from a
	// block boundary with the flag as the real hooks left it.
	w.Ctx = ctx
	w.MS = keeper.NewMsgServerImpl(app.AllianceKeeper)
	w.QS = keeper.NewQueryServerImpl(app.AllianceKeeper)
	return w
}

// Denoms returns the alliance denoms of the configuration (plus those that may be created by governance in gov families).
func (w *World) Denoms() []string {
	out := []string{}
	seen := map[string]bool{}
	for _, a := range w.Cfg.Assets {
		if !seen[a.Denom] {
			out = append(out, a.Denom)
			seen[a.Denom] = true
		}
	}
	for _, d := range []string{"ast0", "ast1"} {
		if !seen[d] {
			out = append(out, d)
			seen[d] = true
		}
	}
	sort.Strings(out)
	return out
}

func (w *World) fund(ctx sdk.Context, a sdk.AccAddress, coins sdk.Coins) {
	must(w.App.BankKeeper.MintCoins(ctx, "mint", coins))
	must(w.App.BankKeeper.SendCoinsFromModuleToAccount(ctx, "mint", a, coins))
}

func must(err error) {
	if err != nil {
		panic(err)
	}
}

func (w *World) Name(bech string) string {
	if n, ok := w.names[bech]; ok {
		return n
	}
	return bech
}

func (w *World) ValByName(n string) (sdk.ValAddress, bool) {
	if n == "vg" {
		return w.GenV, true
	}
	var i int
	if _, err := fmt.Sscanf(n, "v%d", &i); err != nil || i < 0 || i >= len(w.Vals) {
		return nil, false
	}
	return w.Vals[i], true
}

func (w *World) ValIndex(n string) int {
	var i int
	if _, err := fmt.Sscanf(n, "v%d", &i); err != nil {
		return -1
	}
	return i
}

func (w *World) DelByName(n string) (sdk.AccAddress, bool) {
	var i int
	if _, err := fmt.Sscanf(n, "d%d", &i); err != nil || i < 0 || i >= len(w.Dels) {
		return nil, false
	}
	return w.Dels[i], true
}
