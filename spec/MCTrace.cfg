SPECIFICATION Spec
CONSTANTS
  ValOrd <- ValOrdC
  DelOrd <- DelOrdC
  DenOrd <- DenOrdC
  BondDenom = "stake"
  FixF1 = FALSE
  FixF2 = FALSE
  FixF4 = FALSE
  FixF5 = FALSE
  FixF6 = FALSE
  FixF7 = FALSE
POSTCONDITION Consumed
CHECK_DEADLOCK FALSE
