SPECIFICATION Spec
CONSTANTS
  ValOrd <- ValOrdC
  DelOrd <- DelOrdC
  DenOrd <- DenOrdC
  BondDenom = "stake"
  FixF1 = TRUE
  FixF2 = TRUE
  FixF4 = TRUE
  FixF5 = TRUE
  FixF6 = TRUE
  FixF6b = TRUE
  FixF7 = TRUE
  FixN1 = TRUE
  FixN3 = TRUE
  FixK11 = TRUE
POSTCONDITION Consumed
CHECK_DEADLOCK FALSE
