SPECIFICATION Spec
CONSTANTS
  ValOrd <- ValOrdC
  DelOrd <- DelOrdC
  DenOrd <- DenOrdC
  BondDenom = "stake"
  FixF1 = TRUE
  FixF2 = TRUE
  FixF4 = TRUE
  FixF5 = TRUE
  FixF6 = TRUE
  FixF6b = TRUE
  FixF7 = TRUE
  FixN1 = TRUE
  FixN3 = TRUE
  FixK11 = TRUE
  Vals = {"v0"}
  Dels = {"d0", "d1"}
  Assets = {"ast0", "ast1"}
  Amounts = {"5"}
  Fractions = {}
  Gaps = {1, 2}
  AccrueCoins <- AccrueC
  InitAssets0 <- InitAssetsC
  Params0 <- ParamsC
  Unbonding0 = 1
  SelfStake0 = "5000000"
  Funds0 = "1000000"
  Actions <- MCActions
  GovEventsC <- GovC
  Prefix <- PrefixC
  NativeAmounts = {}
  MaxDepth = 6
  MaxBlocks = 3
INVARIANT NoViolation

VIEW View
CHECK_DEADLOCK FALSE
