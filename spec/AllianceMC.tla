----------------------------- MODULE AllianceMC -----------------------------
(***************************************************************************)
(* Closed system: TLC chooses the events.  The module's actions are the    *)
(* operators of Alliance.tla; the environment (x/staking, x/distribution,  *)
(* x/bank) is a small deterministic model at exchange rate 1:              *)
(*   - validators are bonded with a fixed native self-stake;               *)
(*   - the rebalancer's mint+delegate / unbond+burn move the module's      *)
(*     stake, the validator's tokens, the bonded total and the supply by   *)
(*     the same amount;                                                    *)
(*   - Accrue(v, coins) adds to what x/distribution holds for the module   *)
(*     on v (only if the module has stake there).                          *)
(* Every step is judged by the same property operators as recorded traces  *)
(* (AllianceProps!Judge); probes are evaluated on the model itself.        *)
(* Used (a) exhaustively with small constants, (b) with -simulate to       *)
(* produce schedules that are replayed on the real keeper.                 *)
(***************************************************************************)
EXTENDS AllianceProps, Json

CONSTANTS Vals, Dels, Assets,          \* sets of names (subsets of ValOrd / DelOrd / DenOrd)
          Amounts,                     \* token amounts users may move (decimal strings)
          Fractions,                   \* slash fractions (Dec raw)
          Gaps,                        \* block gaps in seconds
          AccrueCoins,                 \* set of coin maps that may be allocated as rewards
          InitAssets0,                 \* asset name -> asset record (the genesis assets)
          Params0,                     \* [delay, interval, last]
          Unbonding0, SelfStake0, Funds0,
          Actions,                     \* subset of event names enabled in this configuration
          MaxDepth,                    \* bound on the number of events
          MaxBlocks,                   \* bound on the number of blocks
          GovEventsC,                  \* set of governance events (records shaped like E(..)) enabled when "Gov" \in Actions
          NativeAmounts,               \* amounts of native (de)delegations when "Native" \in Actions
          Prefix                       \* sequence of events (records shaped like E(..)) applied before the exploration starts

VARIABLES st, gh, viol, known, hist, depth, inBlock

mcvars == <<st, gh, viol, known, hist, depth, inBlock>>

Init0 ==
  [ now |-> 0, height |-> 1, params |-> Params0, assets |-> InitAssets0,
    vals |-> <<>>, dels |-> <<>>, bals |-> <<>>, unbQ |-> <<>>, unbIdx |-> {}, redRec |-> <<>>, redIdx |-> {}, redQ |-> <<>>,
    flag |-> TRUE, snaps |-> <<>>,
    bank |-> [custody |-> NoCoins, rewards |-> NoCoins, fee |-> NoCoins,
              users |-> [d \in Dels |-> [a \in Assets \cup {BondDenom} |-> Funds0]],
              supplyBond |-> BMul(SelfStake0, Cardinality(Vals)), donated |-> NoCoins],
    env |-> [unbonding |-> Unbonding0, totalBonded |-> BMul(SelfStake0, Cardinality(Vals)),
             vals |-> [v \in Vals |-> [status |-> "bonded", jailed |-> FALSE, tokens |-> SelfStake0, dshares |-> DecFromInt(SelfStake0),
                                       modShares |-> "0", hasMod |-> FALSE, pending |-> NoCoins]]],
    invBroken |-> FALSE ]

\* reported balances as the query computes them
WithBals(s) == [s EXCEPT !.bals = [k \in DOMAIN s.dels |-> IF k[3] \in DOMAIN s.assets THEN PositionValue(s, k) ELSE "err"]]

-----------------------------------------------------------------------------
(* environment model *)
EnvDelta(s, v, delta) ==      \* the module's stake on v changes by delta tokens (exchange rate 1)
  LET ev == s.env.vals[v]
      ms == BAdd(ev.modShares, DecFromInt(delta))
  IN  [s EXCEPT !.env.vals[v] = [ev EXCEPT !.modShares = ms, !.hasMod = IsPos(ms), !.tokens = BAdd(@, delta), !.dshares = BAdd(@, DecFromInt(delta)),
                                          !.pending = IF IsPos(ms) THEN @ ELSE NoCoins],
                !.env.totalBonded = BAdd(@, delta),
                !.bank.supplyBond = BAdd(@, delta)]

\* apply the rebalancer's adjustments (computed on the state `at` it saw) to the environment of s
EnvRebalance(s, at) ==
  IF ~at.flag THEN s
  ELSE FoldSet(LAMBDA v, acc : EnvDelta(acc, v, RebalanceDelta([at EXCEPT !.flag = FALSE], v)), s, {v \in DOMAIN at.vals : IsBonded(at, v)})

ClosedEndBlock(s) ==
  LET r5 == EndBlockPre(s)
  IN  IF ~r5.ok THEN r5
      ELSE LET rm == RebalanceModule(r5.s)
           IN  IF ~rm.ok THEN rm ELSE Ok(EnvRebalance(rm.s, r5.s))

\* native stake of validator v (tokens not owned by the module), exchange rate 1
NativeTokens(s, v) == BSub(s.env.vals[v].tokens, TruncInt(s.env.vals[v].modShares))
NativeChange(s, v, x) ==      \* x/staking raises the flag through AfterDelegationModified / BeforeDelegationRemoved
  [s EXCEPT !.env.vals[v].tokens = BAdd(@, x), !.env.vals[v].dshares = BAdd(@, DecFromInt(x)),
            !.env.totalBonded = IF IsBonded(s, v) THEN BAdd(@, x) ELSE @,
            !.bank.supplyBond = @,
            !.flag = TRUE]

ClosedAccrue(s, v, coins) ==
  IF HasMod(s, v) THEN Ok([s EXCEPT !.env.vals[v].pending = CoinsAdd(@, coins)]) ELSE Ok(s)

-----------------------------------------------------------------------------
(* events *)
E(ev) == [ev |-> ev, d |-> "", v |-> "", src |-> "", dst |-> "", a |-> "", x |-> "", f |-> "", dt |-> 0, coins |-> NoCoins,
          signer |-> "authority", legacy |-> FALSE, branch |-> FALSE, weight |-> "", wmin |-> "", wmax |-> "", take |-> "", rate |-> "", chgInt |-> 0,
          delay |-> 0, interval |-> 0, last |-> 0]

Events(s) ==
  IF ~inBlock THEN {[E("BeginBlock") EXCEPT !.dt = g] : g \in Gaps}
  ELSE
      (IF "EndBlock" \in Actions THEN {E("EndBlock")} ELSE {})
      \cup (IF "Delegate" \in Actions THEN {[E("Delegate") EXCEPT !.d = d, !.v = v, !.a = a, !.x = x] : d \in Dels, v \in Vals, a \in Assets, x \in Amounts} ELSE {})
      \cup (IF "Undelegate" \in Actions
            THEN {[E("Undelegate") EXCEPT !.d = k[1], !.v = k[2], !.a = k[3], !.x = x] : k \in DOMAIN s.dels, x \in Amounts \cup {"bal"}} ELSE {})
      \cup (IF "Redelegate" \in Actions
            THEN {[E("Redelegate") EXCEPT !.d = k[1], !.src = k[2], !.dst = w, !.a = k[3], !.x = x] : k \in DOMAIN s.dels, w \in Vals, x \in Amounts \cup {"bal"}} ELSE {})
      \cup (IF "Claim" \in Actions THEN {[E("Claim") EXCEPT !.d = k[1], !.v = k[2], !.a = k[3]] : k \in DOMAIN s.dels} ELSE {})
      \cup (IF "SlashHook" \in Actions THEN {[E("SlashHook") EXCEPT !.v = v, !.f = f] : v \in Vals, f \in Fractions} ELSE {})
      \cup (IF "ExportImport" \in Actions /\ hist # <<>> /\ hist[Len(hist)].ev = "BeginBlock" THEN {E("ExportImport")} ELSE {})
      \cup (IF "Gov" \in Actions THEN GovEventsC ELSE {})
      \cup (IF "Native" \in Actions
            THEN {[E("NativeDelegate") EXCEPT !.v = v, !.x = x] : v \in Vals, x \in NativeAmounts}
                 \cup {[E("NativeUndelegate") EXCEPT !.v = v, !.x = x] : v \in Vals, x \in NativeAmounts}
                 \cup {[E("Unbond") EXCEPT !.v = v] : v \in {v \in Vals : IsBonded(s, v)}}
                 \cup {[E("Rebond") EXCEPT !.v = v] : v \in {v \in Vals : ValExists(s, v) /\ ~IsBonded(s, v)}}
            ELSE {})
      \* the operator has withdrawn the self-delegation of a validator that is out of the bonded set and its unbonding has matured:
      \* x/staking removes the validator if nobody - the module included - has stake on it (AfterValidatorRemoved)
      \cup (IF "Remove" \in Actions
            THEN {[E("Remove") EXCEPT !.v = v] : v \in {v \in Vals : ValExists(s, v) /\ ~IsBonded(s, v) /\ ~HasMod(s, v) /\ NativeTokens(s, v) = SelfStake0}}
            ELSE {})
      \* x/distribution allocates rewards in its begin-blocker only, before any transaction of the block
      \cup (IF "Accrue" \in Actions /\ hist # <<>> /\ hist[Len(hist)].ev \in {"BeginBlock", "Accrue"}
            THEN {[E("Accrue") EXCEPT !.v = v, !.coins = c] : v \in {v \in Vals : HasMod(s, v)}, c \in AccrueCoins} ELSE {})

\* "bal" stands for the balance the delegation query reports
Amt(s, e, k) == IF e.x = "bal" THEN (IF k \in DOMAIN s.bals /\ BIsNum(s.bals[k]) THEN s.bals[k] ELSE "0") ELSE e.x

Concrete(s, e) ==
  CASE e.ev = "Undelegate" -> [e EXCEPT !.x = Amt(s, e, <<e.d, e.v, e.a>>)]
    [] e.ev = "Redelegate" -> [e EXCEPT !.x = Amt(s, e, <<e.d, e.src, e.a>>)]
    [] OTHER -> e

Apply(s, e) ==
  CASE e.ev = "BeginBlock" -> Ok([s EXCEPT !.now = @ + e.dt, !.height = @ + 1])
    [] e.ev = "EndBlock" -> ClosedEndBlock(s)
    [] e.ev = "Delegate" -> Delegate(s, e.d, e.v, e.a, e.x)
    [] e.ev = "Undelegate" -> Undelegate(s, e.d, e.v, e.a, e.x)
    [] e.ev = "Redelegate" -> Redelegate(s, e.d, e.src, e.dst, e.a, e.x, FixF5)
    [] e.ev = "Claim" -> Claim(s, e.d, e.v, e.a)
    [] e.ev = "SlashHook" -> SlashHook(s, e.v, e.f, FixF2, FixF6)
    [] e.ev = "Accrue" -> ClosedAccrue(s, e.v, e.coins)
    [] e.ev = "ExportImport" -> Ok(Reimport(s, FixF7))
    [] e.ev = "GovCreate" -> GovCreate(s, e)
    [] e.ev = "GovUpdate" -> GovUpdate(s, e)
    [] e.ev = "GovDelete" -> GovDelete(s, e)
    [] e.ev = "GovParams" -> GovParams(s, e, FixF1)
    [] e.ev = "NativeDelegate" -> Ok(NativeChange(s, e.v, e.x))
    [] e.ev = "NativeUndelegate" -> IF BLe(BAdd(e.x, SelfStake0), NativeTokens(s, e.v)) THEN Ok(NativeChange(s, e.v, BNeg(e.x))) ELSE Fail("no delegation", s)
    [] e.ev = "Unbond" -> Ok([s EXCEPT !.env.vals[e.v].status = "unbonding", !.env.vals[e.v].jailed = TRUE, !.env.totalBonded = BSub(@, s.env.vals[e.v].tokens), !.flag = TRUE])
    [] e.ev = "Remove" -> Ok([s EXCEPT !.env.vals[e.v] = [status |-> "removed", jailed |-> TRUE, tokens |-> "0", dshares |-> "0", modShares |-> "0", hasMod |-> FALSE, pending |-> NoCoins],
                                        !.vals = [w \in DOMAIN @ \ {e.v} |-> @[w]],
                                        !.flag = TRUE])
    [] e.ev = "Rebond" -> Ok([s EXCEPT !.env.vals[e.v].status = "bonded", !.env.vals[e.v].jailed = FALSE, !.env.totalBonded = BAdd(@, s.env.vals[e.v].tokens), !.flag = TRUE])

-----------------------------------------------------------------------------
(* probes evaluated on the model (the same records the harness logs) *)
ErrClass(err) ==
  CASE err = "" -> ""
    [] err = "insufficient funds" -> "funds"
    [] err = "panic: division by zero" -> "divzero"
    [] err = "insufficient delegation shares" -> "shares"
    [] err = "insufficient tokens" -> "tokens"
    [] err = "panic: negative coin amount" -> "negcoin"
    [] err = "transitive redelegation" -> "transitive"
    [] err = "panic: Int overflow" -> "overflow"
    [] err = "validator does not exist" -> "novalidator"
    [] OTHER -> "other"

P(kind) == [kind |-> kind, d |-> "", v |-> "", dst |-> "", a |-> "", x |-> "", order |-> "", limit |-> 0, ok |-> TRUE, err |-> "", errc |-> "", panic |-> FALSE,
            paid |-> <<>>, items |-> <<>>, oks |-> <<>>, val |-> "", vals |-> <<>>]
PaidSeq(pre, post, d) ==
  LET c == CoinsSub(UserCoins(post, d), UserCoins(pre, d))
      ks == SortBy(DOMAIN c, LAMBDA k : <<DenIdx(k)>>)
  IN  [i \in DOMAIN ks |-> [a |-> ks[i], x |-> c[ks[i]]]]
Outcome(p, r) == [p EXCEPT !.ok = r.ok, !.err = r.err, !.errc = ErrClass(r.err), !.panic = (r.err \in {"panic: division by zero", "panic: negative coin amount"})]

ModelProbes(s) ==
  LET probeDel == CHOOSE d \in Dels : \A d2 \in Dels : DelIdx(d2) <= DelIdx(d)
      ps1 == {Outcome([P("delegate") EXCEPT !.d = probeDel, !.v = v, !.a = a, !.x = "1"], Delegate(s, probeDel, v, a, "1")) : v \in {v \in Vals : ValExists(s, v)}, a \in DOMAIN s.assets}
      ps2 == {LET r == Claim(s, k[1], k[2], k[3]) IN [Outcome([P("claim") EXCEPT !.d = k[1], !.v = k[2], !.a = k[3]], r) EXCEPT !.paid = IF r.ok THEN PaidSeq(s, r.s, k[1]) ELSE <<>>] : k \in DOMAIN s.dels}
      ps3 == {Outcome([P("exit") EXCEPT !.d = k[1], !.v = k[2], !.a = k[3], !.x = s.bals[k]], Undelegate(s, k[1], k[2], k[3], s.bals[k])) : k \in {k \in DOMAIN s.dels : BIsNum(s.bals[k]) /\ IsPos(s.bals[k])}}
      ps4 == {Outcome([P("undelPlus") EXCEPT !.d = k[1], !.v = k[2], !.a = k[3], !.x = BAdd(s.bals[k], 1)], Undelegate(s, k[1], k[2], k[3], BAdd(s.bals[k], 1))) : k \in {k \in DOMAIN s.dels : BIsNum(s.bals[k])}}
  IN  ps1 \cup ps2 \cup ps3 \cup ps4

SetToSeq1(S) == IF S = {} THEN <<>> ELSE SetToSeq(S)

-----------------------------------------------------------------------------
\* one event applied to (state, ghost): the successor, its ghost and the verdicts of every property operator on the step
StepOf(s, g, e0, i) ==
  LET e == Concrete(s, e0)
      r == Apply(s, e)
      post == WithBals(r.s)
      rec == [i |-> i, ev |-> e.ev, args |-> e,
              res |-> [ok |-> r.ok, err |-> r.err, errc |-> ErrClass(r.err), panic |-> FALSE, feff |-> "", burned |-> "", hookErr |-> r.err,
                      same |-> TRUE, detn |-> 0, det |-> TRUE, detDiff |-> ""],
              probes |-> IF e.ev = "BeginBlock" THEN <<>> ELSE SetToSeq1(ModelProbes(post)), mirror |-> <<>>]
      g2 == GhostNext(g, s, rec, post, TRUE)
  IN  [e |-> e, st |-> post, gh |-> g2, j |-> Judge(s, rec, post, g, g2)]

\* a fixed prefix of events (a family may start from a populated state instead of spending its depth bound on getting there);
\* the prefix is part of the history, so generated schedules replay it on the real keeper
RECURSIVE RunPrefix(_, _)
RunPrefix(acc, es) ==
  IF es = <<>> THEN acc
  ELSE LET x == StepOf(acc.st, acc.gh, Head(es), Len(acc.hist) + 1)
       IN  RunPrefix([st |-> x.st, gh |-> x.gh, hist |-> Append(acc.hist, x.e), viol |-> acc.viol \cup {v \in x.j : v.kf = ""}], Tail(es))
Start == RunPrefix([st |-> WithBals(Init0), gh |-> GhostInit, hist |-> <<>>, viol |-> {}], Prefix)

Init ==
  /\ st = Start.st
  /\ gh = Start.gh
  /\ viol = Start.viol
  /\ known = {}
  /\ hist = Start.hist
  /\ depth = 0
  /\ inBlock = (Prefix # <<>> /\ Prefix[Len(Prefix)].ev # "EndBlock")

Next ==
  /\ depth < MaxDepth
  /\ \E e0 \in Events(st) :
       LET x == StepOf(st, gh, e0, Len(hist) + 1)
           e == x.e
           post == x.st
           j == x.j
       IN  /\ (e.ev = "BeginBlock" => post.height <= MaxBlocks + 1 + Cardinality({i \in DOMAIN Prefix : Prefix[i].ev = "BeginBlock"}))
           /\ st' = post
           /\ gh' = x.gh
           /\ viol' = {v \in j : v.kf = ""}
           /\ known' = {v.kf : v \in {v \in j : v.kf # ""}}
           /\ hist' = Append(hist, e)
           /\ depth' = depth + 1
           /\ inBlock' = (IF e.ev = "BeginBlock" THEN TRUE ELSE IF e.ev = "EndBlock" THEN FALSE ELSE inBlock)

Spec == Init /\ [][Next]_mcvars

\* the verdict of the closed model: no step violates a property other than through a listed known finding
NoViolation == viol = {}

\* observation-only variables are kept out of the fingerprint
View == <<st, gh, inBlock, depth, IF hist = <<>> THEN "" ELSE hist[Len(hist)].ev>>

\* schedule extraction for replay on the real keeper (simulation mode): prints the history once it is complete
DumpSchedule == depth < MaxDepth \/ PrintT("SCHED " \o ToJson(hist))
=============================================================================
