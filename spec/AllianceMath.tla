--------------------------- MODULE AllianceMath ---------------------------
(***************************************************************************)
(* 18-digit fixed point ("Dec", cosmossdk.io/math.LegacyDec v1.2.0) and    *)
(* the module's share/token conversions (types/asset.go, validator.go),    *)
(* transcribed operation by operation.  A Dec is its raw 10^18-scaled      *)
(* integer, an Int is the integer itself; both are decimal strings that    *)
(* are manipulated only through BigNum.                                    *)
(***************************************************************************)
EXTENDS BigNum, Integers, Sequences, FiniteSets, FiniteSetsExt, TLC

ONE  == "1000000000000000000"
HALF == "500000000000000000"
ROUNDER == "10000000000000000"       \* types.Rounder = 0.01

IsNeg(x)  == BLt(x, 0)
IsPos(x)  == BLt(0, x)
IsZero(x) == BEq(x, 0)

\* chopPrecisionAndRound: divide by 10^18 with banker's rounding (half to even), sign handled first
ChopAbs(x) ==
  LET q == BQuo(x, ONE)
      r == BRem(x, ONE)
  IN  IF IsZero(r) THEN q
      ELSE IF BLt(r, HALF) THEN q
      ELSE IF BLt(HALF, r) THEN BAdd(q, 1)
      ELSE IF BOdd(q) THEN BAdd(q, 1) ELSE q
Chop(x) == IF IsNeg(x) THEN BNeg(ChopAbs(BNeg(x))) ELSE ChopAbs(x)

DecFromInt(i)  == BMul(i, ONE)
DMul(a, b)     == Chop(BMul(a, b))                        \* Dec.Mul
DMulTrunc(a, b) == BQuo(BMul(a, b), ONE)                  \* Dec.MulTruncate
DMulInt(a, i)  == BMul(a, i)                              \* Dec.MulInt (exact)
DQuo(a, b)     == Chop(BQuo(BMul(BMul(a, ONE), ONE), b))  \* Dec.Quo: (a*10^36) Quo b, then chop & round
DQuoInt(a, i)  == BQuo(a, i)                              \* Dec.QuoInt (truncating)
TruncInt(a)    == BQuo(a, ONE)                            \* Dec.TruncateInt (towards zero)
TruncDec(a)    == BMul(BQuo(a, ONE), ONE)                 \* Dec.TruncateDec

\* Dec.QuoRoundUp: (a*10^36) Quo b, then chop rounding *up* (away from zero for positives)
ChopUpAbs(x) == LET q == BQuo(x, ONE)  r == BRem(x, ONE) IN IF IsZero(r) THEN q ELSE BAdd(q, 1)
DQuoRoundUp(a, b) ==
  LET x == BQuo(BMul(BMul(a, ONE), ONE), b)
  IN  IF IsNeg(x) THEN BNeg(BQuo(BNeg(x), ONE)) ELSE ChopUpAbs(x)

\* Dec.Power(n): square-and-multiply with a rounded Mul at every step, in the SDK's order
\* LegacyDec panics with "Int overflow" when a (chopped) product needs more than 315 bits
POW2_315 == "66749594872528440074844428317798503581334516323645399060845050244444366430645017188217565216768"
Overflow(x) == BLe(POW2_315, BAbs(x))
RECURSIVE PowLoop(_, _, _)
PowLoop(d, tmp, i) ==
  IF Overflow(d) \/ Overflow(tmp) THEN POW2_315          \* the SDK has panicked by now; stop before the numbers explode
  ELSE IF i <= 1 THEN DMul(d, tmp)
  ELSE PowLoop(DMul(d, d), IF i % 2 # 0 THEN DMul(tmp, d) ELSE tmp, i \div 2)
DPow(d, n) == IF n = 0 THEN ONE ELSE PowLoop(d, ONE, n)

-----------------------------------------------------------------------------
(* partial maps with implicit zeros, as sdk.Coins / sdk.DecCoins (zero entries are dropped) *)
Get(f, k) == IF k \in DOMAIN f THEN f[k] ELSE "0"
Put(f, k, v) ==
  IF IsZero(v) THEN [x \in DOMAIN f \ {k} |-> f[x]]
  ELSE [x \in DOMAIN f \cup {k} |-> IF x = k THEN v ELSE f[x]]
CoinsAdd(f, g) ==
  LET ks == DOMAIN f \cup DOMAIN g
      nz == {k \in ks : ~IsZero(BAdd(Get(f, k), Get(g, k)))}
  IN  [k \in nz |-> BAdd(Get(f, k), Get(g, k))]
CoinsSub(f, g) ==      \* may produce negative entries; callers check CoinsGE first where the code would fail
  LET ks == DOMAIN f \cup DOMAIN g
      nz == {k \in ks : ~IsZero(BSub(Get(f, k), Get(g, k)))}
  IN  [k \in nz |-> BSub(Get(f, k), Get(g, k))]
CoinsGE(f, g) == \A k \in DOMAIN g : BLe(g[k], Get(f, k))
NoCoins == <<>>
Coin(k, v) == IF IsZero(v) THEN NoCoins ELSE (k :> v)
IsEmptyMap(f) == DOMAIN f = {}

BSum(S, f(_)) == FoldSet(LAMBDA x, acc : BAdd(f(x), acc), "0", S)
RECURSIVE SumSeqBal(_)
SumSeqBal(sq) == IF sq = <<>> THEN "0" ELSE BAdd(Head(sq).bal, SumSeqBal(Tail(sq)))

-----------------------------------------------------------------------------
(* types/asset.go *)
ConvertNewTokenToShares(totalTokens, totalShares, newTokens) ==      \* (Dec, Dec, Int) -> Dec; divides by zero when tokens = 0 < shares
  IF IsZero(totalShares) THEN DecFromInt(newTokens)
  ELSE DMulInt(DQuo(totalShares, totalTokens), newTokens)

ConvertNewShareToDecToken(totalTokens, totalShares, shares) ==       \* (Dec, Dec, Dec) -> Dec
  IF IsZero(totalShares) THEN totalTokens
  ELSE DMul(DQuo(shares, totalShares), totalTokens)

\* would the conversion of new tokens to shares divide by zero?
ConvDivZero(totalTokens, totalShares) == ~IsZero(totalShares) /\ IsZero(totalTokens)

\* AllianceValidator.TotalTokensWithAsset : Dec
ValTokensOf(asset, valVShares) == ConvertNewShareToDecToken(DecFromInt(asset.total), asset.vshares, valVShares)

\* GetValidatorShares(asset, tokens) : Dec
ValidatorSharesFor(asset, tokens) == ConvertNewTokenToShares(DecFromInt(asset.total), asset.vshares, tokens)
ValidatorSharesDivZero(asset) == ConvDivZero(DecFromInt(asset.total), asset.vshares)

\* GetDelegationTokensWithShares / GetDelegationTokens : Int   (with the +0.01 rounder)
DelTokensOf(shares, valTokens, totalDelShares) ==
  TruncInt(BAdd(ConvertNewShareToDecToken(valTokens, totalDelShares, shares), ROUNDER))

\* GetDelegationSharesFromTokens : Dec
DelSharesDivZero(valTokens, totalDelShares) ==
  ~IsZero(TruncInt(totalDelShares)) /\ ConvDivZero(valTokens, totalDelShares)
DelSharesFromTokens(valTokens, totalDelShares, tokens) ==
  IF IsZero(TruncInt(totalDelShares)) THEN DecFromInt(tokens)
  ELSE ConvertNewTokenToShares(valTokens, totalDelShares, tokens)

\* SubtractDecCoinsWithRounding on one denom: clamp an over-draw of less than one share; a larger one
\* makes DecCoins.Sub panic ("negative coin amount").
SubRoundingPanics(a1, a2) == BLt(a1, a2) /\ ~BLt(BSub(a2, a1), ONE)
SubRounding(a1, a2) == IF BLt(a1, a2) /\ BLt(BSub(a2, a1), ONE) THEN "0" ELSE BSub(a1, a2)

\* Keeper.ValidateDelegatedAmount: [ok, shares]
ValidateDelegated(delShares, want) ==
  IF BLt(BAbs(BSub(delShares, want)), ROUNDER) THEN [ok |-> TRUE, shares |-> delShares]
  ELSE IF BLt(delShares, TruncDec(want)) THEN [ok |-> FALSE, shares |-> "0"]
  ELSE IF BLt(delShares, want) THEN [ok |-> TRUE, shares |-> delShares]
  ELSE [ok |-> TRUE, shares |-> want]

Max2(a, b) == IF a >= b THEN a ELSE b
=============================================================================
