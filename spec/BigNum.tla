----------------------------- MODULE BigNum -----------------------------
(***************************************************************************)
(* Arbitrary-precision integers encoded as decimal strings.                *)
(* TLC's integers are 32-bit; x/alliance works with 18-digit fixed point   *)
(* and token amounts up to 10^30.  Every operator below is overridden by   *)
(* BigNum.java (java.math.BigInteger), loaded by TLC as a module override, *)
(* in the same way TLC's own Integers module is backed by Java.  The TLA+  *)
(* bodies are only declarations; they are never evaluated.                 *)
(* Arguments may be decimal strings or (small) TLC integers.               *)
(***************************************************************************)
LOCAL INSTANCE Integers

BAdd(a, b) == CHOOSE s \in STRING : TRUE      \* a + b
BSub(a, b) == CHOOSE s \in STRING : TRUE      \* a - b
BMul(a, b) == CHOOSE s \in STRING : TRUE      \* a * b
BQuo(a, b) == CHOOSE s \in STRING : TRUE      \* truncated towards zero, as Go's big.Int.Quo
BRem(a, b) == CHOOSE s \in STRING : TRUE      \* sign of a, as Go's big.Int.Rem
BNeg(a)    == CHOOSE s \in STRING : TRUE
BAbs(a)    == CHOOSE s \in STRING : TRUE
BCmp(a, b) == CHOOSE i \in {-1, 0, 1} : TRUE  \* -1, 0, 1
BLt(a, b)  == CHOOSE x \in BOOLEAN : TRUE
BLe(a, b)  == CHOOSE x \in BOOLEAN : TRUE
BEq(a, b)  == CHOOSE x \in BOOLEAN : TRUE     \* numeric equality ("007" = "7")
BMin(a, b) == CHOOSE s \in STRING : TRUE
BMax(a, b) == CHOOSE s \in STRING : TRUE
BPow10(n)  == CHOOSE s \in STRING : TRUE      \* 10^n, n a TLC integer
BFromInt(i) == CHOOSE s \in STRING : TRUE     \* TLC integer -> string
BToInt(a)  == CHOOSE i \in Int : TRUE         \* string -> TLC integer (fails above 2^31-1)
BIsNum(a)  == CHOOSE x \in BOOLEAN : TRUE     \* is a a well-formed decimal integer?
BOdd(a)    == CHOOSE x \in BOOLEAN : TRUE
=============================================================================
