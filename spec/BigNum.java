import java.math.BigInteger;
import tlc2.value.impl.BoolValue;
import tlc2.value.impl.IntValue;
import tlc2.value.impl.StringValue;
import tlc2.value.impl.Value;

// Module override for BigNum.tla: exact integers as decimal strings.
public class BigNum {
    private static BigInteger bi(final Value v) {
        if (v instanceof IntValue) {
            return BigInteger.valueOf(((IntValue) v).val);
        }
        if (v instanceof StringValue) {
            return new BigInteger(((StringValue) v).getVal().toString());
        }
        throw new IllegalArgumentException("BigNum: expected a decimal string or an integer, got " + v);
    }

    private static Value sv(final BigInteger b) {
        return new StringValue(b.toString());
    }

    public static Value BAdd(final Value a, final Value b) { return sv(bi(a).add(bi(b))); }
    public static Value BSub(final Value a, final Value b) { return sv(bi(a).subtract(bi(b))); }
    public static Value BMul(final Value a, final Value b) { return sv(bi(a).multiply(bi(b))); }
    public static Value BQuo(final Value a, final Value b) { return sv(bi(a).divide(bi(b))); }
    public static Value BRem(final Value a, final Value b) { return sv(bi(a).remainder(bi(b))); }
    public static Value BNeg(final Value a) { return sv(bi(a).negate()); }
    public static Value BAbs(final Value a) { return sv(bi(a).abs()); }
    public static Value BCmp(final Value a, final Value b) { return IntValue.gen(bi(a).compareTo(bi(b))); }
    public static Value BLt(final Value a, final Value b) { return bi(a).compareTo(bi(b)) < 0 ? BoolValue.ValTrue : BoolValue.ValFalse; }
    public static Value BLe(final Value a, final Value b) { return bi(a).compareTo(bi(b)) <= 0 ? BoolValue.ValTrue : BoolValue.ValFalse; }
    public static Value BEq(final Value a, final Value b) { return bi(a).compareTo(bi(b)) == 0 ? BoolValue.ValTrue : BoolValue.ValFalse; }
    public static Value BMin(final Value a, final Value b) { return sv(bi(a).min(bi(b))); }
    public static Value BMax(final Value a, final Value b) { return sv(bi(a).max(bi(b))); }
    public static Value BPow10(final Value n) { return sv(BigInteger.TEN.pow(((IntValue) n).val)); }
    public static Value BFromInt(final Value i) { return sv(bi(i)); }
    public static Value BToInt(final Value a) { return IntValue.gen(bi(a).intValueExact()); }
    public static Value BOdd(final Value a) { return bi(a).testBit(0) ? BoolValue.ValTrue : BoolValue.ValFalse; }
    public static Value BIsNum(final Value a) {
        if (a instanceof IntValue) { return BoolValue.ValTrue; }
        if (!(a instanceof StringValue)) { return BoolValue.ValFalse; }
        final String s = ((StringValue) a).getVal().toString();
        return s.matches("-?[0-9]+") ? BoolValue.ValTrue : BoolValue.ValFalse;
    }
}
