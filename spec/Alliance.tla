------------------------------ MODULE Alliance ------------------------------
(***************************************************************************)
(* x/alliance as a deterministic state machine over one abstract state     *)
(* record.  Every entry point of the module is one operator                *)
(*        Op(s, args) -> [ok, err, s]                                      *)
(* that returns the successor state exactly as the code computes it (same  *)
(* 18-digit arithmetic, same order of reads and writes, same stale copies, *)
(* same early exits).  User/governance messages are atomic: a failure      *)
(* returns the state unchanged.  Staking callbacks and end-of-block are    *)
(* NOT atomic: a failure returns the partially written state.              *)
(*                                                                         *)
(* Two systems are built on these operators:                               *)
(*   AllianceTrace.tla  (open): events and environment observations come   *)
(*                      from a trace recorded on the real keeper;          *)
(*   MC_*.tla           (closed): TLC chooses the events.                  *)
(*                                                                         *)
(* Environment owned state (x/staking, x/distribution) lives in s.env; in  *)
(* the open system it is re-read from the log after every step.            *)
(***************************************************************************)
EXTENDS AllianceMath, SequencesExt, Functions

CONSTANTS ValOrd,    \* validators in address (store) order, e.g. <<"v0","v1","v2">>
          DelOrd,    \* delegators in address order
          DenOrd,    \* all denoms in byte order (alliance assets and reward denoms)
          BondDenom, \* the staking denom
          \* which repairs of DESIGN.md section 7 the tree under test contains (the model describes the code as it is)
          FixF1, FixF2, FixF4, FixF5, FixF6, FixF6b, FixF7, FixN1, FixN3, FixK11

Pos(sq, x) == IF \E i \in DOMAIN sq : sq[i] = x THEN CHOOSE i \in DOMAIN sq : sq[i] = x ELSE 0

Res(ok, err, s) == [ok |-> ok, err |-> err, s |-> s]
Ok(s)        == Res(TRUE, "", s)
Fail(err, s) == Res(FALSE, err, s)

-----------------------------------------------------------------------------
(* generic helpers on functions *)
DropKey(f, k)  == [x \in DOMAIN f \ {k} |-> f[x]]
SetKey(f, k, v) == [x \in DOMAIN f \cup {k} |-> IF x = k THEN v ELSE f[x]]

\* sort a finite set of tuples of small integers lexicographically
RECURSIVE TupLt(_, _, _)
TupLt(a, b, i) ==
  IF i > Len(a) THEN FALSE
  ELSE IF a[i] < b[i] THEN TRUE
  ELSE IF a[i] > b[i] THEN FALSE
  ELSE TupLt(a, b, i + 1)
SortBy(S, key(_)) == SetToSortSeq(S, LAMBDA x, y : TupLt(key(x), key(y), 1))

DenIdx(a) == Pos(DenOrd, a)
ValIdx(v) == Pos(ValOrd, v)
DelIdx(d) == Pos(DelOrd, d)

-----------------------------------------------------------------------------
(* views *)
Started(asset, now) == now >= asset.start           \* AllianceAsset.RewardsStarted
ValExists(s, v) == v \in DOMAIN s.env.vals /\ s.env.vals[v].status # "removed"
EmptyInfo == [vshares |-> NoCoins, dshares |-> NoCoins, hist |-> <<>>]
Info(s, v) == IF v \in DOMAIN s.vals THEN s.vals[v] ELSE EmptyInfo
\* GetAllianceValidator creates the info record when it is missing
Ensure(s, v) == IF v \in DOMAIN s.vals THEN s ELSE [s EXCEPT !.vals = SetKey(@, v, EmptyInfo)]

ValTokens(asset, info, a) == ValTokensOf(asset, Get(info.vshares, a))                \* Dec
DelTokens(asset, info, a, shares) == DelTokensOf(shares, ValTokens(asset, info, a), Get(info.dshares, a))   \* Int
PositionValue(s, k) ==     \* what the AllianceDelegation query reports for position k = <<d, v, a>>
  DelTokens(s.assets[k[3]], Info(s, k[2]), k[3], s.dels[k].shares)

HistOfAlliance(h, a) == [k \in {k \in DOMAIN h : k[1] = a} |-> h[k]]                 \* GetIndexByAlliance

UserCoins(s, d) == IF d \in DOMAIN s.bank.users THEN s.bank.users[d] ELSE NoCoins
Pay(s, from, d, coins) ==    \* module account -> user; caller has checked sufficiency
  [s EXCEPT !.bank[from] = CoinsSub(@, coins),
            !.bank.users = SetKey(@, d, CoinsAdd(UserCoins(s, d), coins))]

-----------------------------------------------------------------------------
(* keeper/reward.go *)

\* AddAssetsToRewardPool(from = module account, val, coins).  Panics (division by zero) when every
\* eligible asset has reward weight zero.
PoolSkip(s, info, a) ==
  LET asset == s.assets[a]
  IN  IsZero(asset.total) \/ ~Started(asset, s.now) \/ IsZero(ValTokens(asset, info, a))
PoolEligible(s, info) == {a \in DOMAIN s.assets : ~PoolSkip(s, info, a)}
StakedRewardWeight(s, info, a) ==
  LET asset == s.assets[a] IN DQuoInt(DMul(asset.weight, ValTokens(asset, info, a)), asset.total)
\* every eligible asset's staked reward weight is zero (weight zero, or a fraction of the asset below 10^-18)
PoolWeightless(s, v) ==
  LET info == Info(s, v)
      el == PoolEligible(s, info)
  IN  /\ ~IsEmptyMap(info.dshares)
      /\ el # {}
      /\ IsZero(BSum(el, LAMBDA a : StakedRewardWeight(s, info, a)))
\* FixK11: the repaired tree returns early (the coins stay in the module account) instead of dividing by zero
PoolPanics(s, v) == ~FixK11 /\ PoolWeightless(s, v)

AddToPool(s, v, coins) ==
  LET info == Info(s, v)
  IN  IF IsEmptyMap(info.dshares) \/ PoolWeightless(s, v) THEN s                \* rewards belong to no one: coins stay where they are
      ELSE
        LET el    == PoolEligible(s, info)
            total == BSum(el, LAMBDA a : StakedRewardWeight(s, info, a))
            keys  == {<<a, rd>> : a \in el, rd \in DOMAIN coins}
            diff(k) == DQuo(DMul(DecFromInt(coins[k[2]]), DQuo(StakedRewardWeight(s, info, k[1]), total)),
                            ValTokens(s.assets[k[1]], info, k[1]))
            hist2 == [k \in DOMAIN info.hist \cup keys |->
                        IF k \in keys THEN BAdd(IF k \in DOMAIN info.hist THEN info.hist[k] ELSE "0", diff(k))
                        ELSE info.hist[k]]
        IN  [s EXCEPT !.vals[v].hist = hist2,
                      !.bank.custody = CoinsSub(@, coins),
                      !.bank.rewards = CoinsAdd(@, coins)]

\* ClaimValidatorRewards: withdraw what x/distribution holds for the module on v and index it.
HasMod(s, v) == v \in DOMAIN s.env.vals /\ s.env.vals[v].hasMod
Pending(s, v) == IF v \in DOMAIN s.env.vals THEN s.env.vals[v].pending ELSE NoCoins
CVRPanics(s, v) == HasMod(s, v) /\ ~IsEmptyMap(Pending(s, v)) /\ PoolPanics(s, v)
CVR(s, v) ==
  IF ~HasMod(s, v) \/ IsEmptyMap(Pending(s, v)) THEN s
  ELSE LET coins == Pending(s, v)
           s1 == [s EXCEPT !.env.vals[v].pending = NoCoins,
                           !.bank.custody = CoinsAdd(@, coins)]      \* paid to the module account
       IN  AddToPool(s1, v, coins)

\* accumulateRewards over one segment; returns [coins, hist]
Accumulate(latest, dhist, tokensDec) ==
  LET newer == {k \in DOMAIN latest : BLt(IF k \in DOMAIN dhist THEN dhist[k] ELSE "0", latest[k])}
      claim(k) == TruncInt(DMul(BSub(latest[k], IF k \in DOMAIN dhist THEN dhist[k] ELSE "0"), tokensDec))
      rds == {k[2] : k \in newer}
      coins == [rd \in {rd \in rds : ~IsZero(BSum({k \in newer : k[2] = rd}, claim))} |->
                  BSum({k \in newer : k[2] = rd}, claim)]
      hist2 == [k \in DOMAIN dhist \cup DOMAIN latest |->
                  IF k \in newer THEN latest[k]
                  ELSE IF k \in DOMAIN dhist THEN dhist[k] ELSE "0"]
  IN  [coins |-> coins, hist |-> hist2]

\* CalculateDelegationRewards: segmented by the weight-change snapshots at heights >= the last claim height
RECURSIVE AccumulateSnaps(_, _, _, _)
AccumulateSnaps(snapSeq, dhist, tokensDec, acc) ==
  IF snapSeq = <<>> THEN [coins |-> acc, hist |-> dhist]
  ELSE LET r == Accumulate(Head(snapSeq).hist, dhist, tokensDec)
       IN  AccumulateSnaps(Tail(snapSeq), r.hist, tokensDec, CoinsAdd(acc, r.coins))

CalcRewards(s, k) ==      \* k = <<d, v, a>>;  [coins, hist]
  LET a == k[3]  v == k[2]
      del == s.dels[k]
      info == Info(s, v)
      cur == HistOfAlliance(info.hist, a)
      dh0 == HistOfAlliance(del.hist, a)
      tokensDec == DecFromInt(DelTokens(s.assets[a], info, a, del.shares))
      sk == {x \in DOMAIN s.snaps : x[1] = a /\ x[2] = v /\ x[3] >= del.lastH}
      sseq == [i \in 1..Cardinality(sk) |-> s.snaps[SortBy(sk, LAMBDA x : <<x[3]>>)[i]]]
      r1 == AccumulateSnaps(sseq, dh0, tokensDec, NoCoins)
      r2 == Accumulate(cur, r1.hist, tokensDec)
  IN  [coins |-> CoinsAdd(r1.coins, r2.coins), hist |-> cur]

\* Keeper.ClaimDelegationRewards (v's info record exists)
ClaimDel(s, d, v, a) ==
  IF a \notin DOMAIN s.assets THEN Fail("unknown asset", s)
  ELSE IF ~Started(s.assets[a], s.now) THEN Ok(s)
  ELSE IF <<d, v, a>> \notin DOMAIN s.dels THEN Fail("no delegation", s)
  ELSE IF CVRPanics(s, v) THEN Fail("panic: division by zero", s)
  ELSE
    LET s1 == CVR(s, v)
        r  == CalcRewards(s1, <<d, v, a>>)
        s2 == [s1 EXCEPT !.dels[<<d, v, a>>].hist = r.hist, !.dels[<<d, v, a>>].lastH = s.height]
    IN  IF ~CoinsGE(s2.bank.rewards, r.coins) THEN Fail("insufficient funds", s)
        ELSE Ok(Pay(s2, "rewards", d, r.coins))

-----------------------------------------------------------------------------
(* keeper/delegation.go *)

UnbondingTime(s) == s.env.unbonding

\* new delegation shares for tokens x on validator v (GetDelegationSharesFromTokens)
NewDelSharesPanics(asset, info, a) == DelSharesDivZero(ValTokens(asset, info, a), Get(info.dshares, a))
NewDelShares(asset, info, a, x) == DelSharesFromTokens(ValTokens(asset, info, a), Get(info.dshares, a), x)

\* Keeper.ValidateDelegatedAmount: [ok, panic, shares].  FixN3: a request for exactly the token value of the
\* delegation withdraws all of its shares (checked before any conversion).
ValidateAmt(asset, info, a, delShares, x) ==
  IF FixN3 /\ x = DelTokens(asset, info, a, delShares) THEN [ok |-> TRUE, panic |-> FALSE, shares |-> delShares]
  ELSE IF NewDelSharesPanics(asset, info, a) THEN [ok |-> FALSE, panic |-> TRUE, shares |-> "0"]
  ELSE LET r == ValidateDelegated(delShares, NewDelShares(asset, info, a, x)) IN [ok |-> r.ok, panic |-> FALSE, shares |-> r.shares]

\* validator shares that stand for x tokens of the asset; FixN1: capped at what the validator holds
ValSharesToRemove(asset, info, a, x) ==
  LET raw == ValidatorSharesFor(asset, x) IN IF FixN1 /\ BLt(Get(info.vshares, a), raw) THEN Get(info.vshares, a) ELSE raw

\* upsertDelegationWithNewTokens (info = the caller's copy of the validator)
Upsert(s, d, v, a, newShares, info) ==
  LET k == <<d, v, a>>
  IN  IF k \in DOMAIN s.dels THEN [s EXCEPT !.dels[k].shares = BAdd(@, newShares)]
      ELSE [s EXCEPT !.dels = SetKey(@, k, [shares |-> newShares, hist |-> info.hist, lastH |-> s.height])]

\* reduceDelegationShares
ReduceDel(s, k, shares) ==
  LET left == BSub(s.dels[k].shares, shares)
  IN  IF IsZero(left) THEN [s EXCEPT !.dels = DropKey(@, k)] ELSE [s EXCEPT !.dels[k].shares = left]

\* AllianceValidator.ReduceShares on one denom
ReducePanics(info, a, dsh, vsh) ==
  SubRoundingPanics(Get(info.dshares, a), dsh) \/ SubRoundingPanics(Get(info.vshares, a), vsh)
ReduceInfo(info, a, dsh, vsh) ==
  [info EXCEPT !.dshares = IF IsZero(dsh) THEN @ ELSE Put(@, a, SubRounding(Get(@, a), dsh)),
               !.vshares = IF IsZero(vsh) THEN @ ELSE Put(@, a, SubRounding(Get(@, a), vsh))]
AddInfo(info, a, dsh, vsh) ==
  [info EXCEPT !.dshares = Put(@, a, BAdd(Get(@, a), dsh)),
               !.vshares = Put(@, a, BAdd(Get(@, a), vsh))]

\* ResetAssetAndValidators(asset): asset is the caller's copy
ResetAsset(s, a, asset) ==
  IF ~IsZero(asset.total) THEN s
  ELSE [s EXCEPT !.vals = [v \in DOMAIN @ |-> [@[v] EXCEPT !.vshares = Put(@, a, "0")]],
                 !.assets[a] = [asset EXCEPT !.vshares = "0"]]

\* ClearDustDelegation(d, validator = caller's copy `info`, asset = caller's copy).  Returns [panic, s].
ClearDust(s, d, v, a, info, asset) ==
  LET k == <<d, v, a>>
      found == k \in DOMAIN s.dels
      dustDel == found /\ IsZero(DelTokens(asset, info, a, s.dels[k].shares))
      dsh == IF dustDel THEN s.dels[k].shares ELSE "0"
      s1 == IF dustDel THEN [s EXCEPT !.dels = DropKey(@, k)] ELSE s
      vsh == IF IsZero(ValTokens(asset, info, a)) THEN Get(info.vshares, a) ELSE "0"
      pan == ReducePanics(info, a, dsh, vsh)
      info2 == ReduceInfo(info, a, dsh, vsh)
      \* FixN1: the validator's dust shares leave the asset's share total as well
      asset2 == IF FixN1 /\ IsPos(vsh) THEN [asset EXCEPT !.vshares = BSub(@, vsh)] ELSE asset
      s2 == [s1 EXCEPT !.vals[v] = info2, !.assets[a] = IF FixN1 /\ IsPos(vsh) THEN asset2 ELSE @]
  IN  [panic |-> pan, s |-> IF pan THEN s ELSE ResetAsset(s2, a, asset2)]

HasRedelegationInto(s, d, dst, a) == \E k \in DOMAIN s.redRec : k[1] = d /\ k[2] = a /\ k[3] = dst

AppendAt(f, k, x) == SetKey(f, k, IF k \in DOMAIN f THEN Append(f[k], x) ELSE <<x>>)

\* Msg server + Keeper.Delegate
Delegate(s, d, v, a, x) ==
  IF ~IsPos(x) THEN Fail("amount must be positive", s)
  ELSE IF ~ValExists(s, v) THEN Fail("validator does not exist", s)
  ELSE IF a \notin DOMAIN s.assets THEN Fail("asset not whitelisted", s)
  ELSE IF BLt(Get(UserCoins(s, d), a), x) THEN Fail("insufficient funds", s)
  ELSE
    LET s0 == Ensure(s, v)
        asset == s0.assets[a]
        s1 == [s0 EXCEPT !.bank.users[d] = CoinsSub(@, Coin(a, x)), !.bank.custody = CoinsAdd(@, Coin(a, x))]
        k  == <<d, v, a>>
        rc == IF k \in DOMAIN s1.dels THEN ClaimDel(s1, d, v, a)
              ELSE IF CVRPanics(s1, v) THEN Fail("panic: division by zero", s1) ELSE Ok(CVR(s1, v))
    IN  IF ~rc.ok THEN Fail(rc.err, s)
        ELSE
          LET s2 == rc.s
              info == s2.vals[v]
          IN  IF NewDelSharesPanics(asset, info, a) \/ ValidatorSharesDivZero(asset) THEN Fail("panic: division by zero", s)
              ELSE
                LET newShares == NewDelShares(asset, info, a, x)
                    s3 == Upsert(s2, d, v, a, newShares, info)
                    newV == ValidatorSharesFor(asset, x)
                    s4 == [s3 EXCEPT !.assets[a].total = BAdd(@, x), !.assets[a].vshares = BAdd(@, newV),
                                     !.vals[v] = AddInfo(info, a, newShares, newV),
                                     !.flag = TRUE]
                IN  Ok(s4)

\* Msg server + Keeper.Undelegate
Undelegate(s, d, v, a, x) ==
  IF ~IsPos(x) THEN Fail("amount must be positive", s)
  ELSE IF ~ValExists(s, v) THEN Fail("validator does not exist", s)
  ELSE IF a \notin DOMAIN s.assets THEN Fail("asset does not exist", s)
  ELSE IF <<d, v, a>> \notin DOMAIN s.dels THEN Fail("no delegation", s)
  ELSE
    LET k == <<d, v, a>>
        asset == s.assets[a]
        rc == ClaimDel(s, d, v, a)
    IN  IF ~rc.ok THEN Fail(rc.err, s)
        ELSE
          LET s1 == rc.s
              info == s1.vals[v]
              del == s1.dels[k]
          IN  LET vr == ValidateAmt(asset, info, a, del.shares, x)
              IN  IF vr.panic THEN Fail("panic: division by zero", s)
                    ELSE IF ~vr.ok THEN Fail("insufficient delegation shares", s)
                    ELSE IF BLt(DelTokens(asset, info, a, vr.shares), x) THEN Fail("insufficient tokens", s)
                    ELSE IF ValidatorSharesDivZero(asset) THEN Fail("panic: division by zero", s)
                    ELSE
                      LET vsh == ValSharesToRemove(asset, info, a, x)
                          asset2 == [asset EXCEPT !.total = BSub(@, x), !.vshares = BSub(@, vsh)]
                          s2 == ReduceDel([s1 EXCEPT !.assets[a] = asset2], k, vr.shares)
                      IN  IF ReducePanics(info, a, vr.shares, vsh) THEN Fail("panic: negative coin amount", s)
                          ELSE
                            LET info2 == ReduceInfo(info, a, vr.shares, vsh)
                                s3 == [s2 EXCEPT !.vals[v] = info2]
                                cd == ClearDust(s3, d, v, a, info2, asset2)
                            IN  IF cd.panic THEN Fail("panic: negative coin amount", s)
                                ELSE
                                  LET t == s.now + UnbondingTime(s)
                                      s4 == [cd.s EXCEPT !.unbQ = AppendAt(@, <<t, d>>, [d |-> d, v |-> v, a |-> a, bal |-> x]),
                                                         !.unbIdx = @ \cup {<<v, t, a, d>>},
                                                         !.flag = TRUE]
                                  IN  Ok(s4)

\* Msg server + Keeper.Redelegate.  SettleNewDst = TRUE models the repaired tree (F5): the destination
\* validator's pending rewards are indexed before a NEW destination position is created.
Redelegate(s, d, src, dst, a, x, SettleNewDst) ==
  IF ~IsPos(x) THEN Fail("amount must be positive", s)
  ELSE IF ~ValExists(s, src) \/ ~ValExists(s, dst) THEN Fail("validator does not exist", s)
  ELSE IF src = dst THEN Fail("same validator", s)
  ELSE IF a \notin DOMAIN s.assets THEN Fail("asset does not exist", s)
  ELSE IF <<d, src, a>> \notin DOMAIN s.dels THEN Fail("no delegation", s)
  ELSE
    LET sE == Ensure(Ensure(s, src), dst)
        asset == sE.assets[a]
        ks == <<d, src, a>>
        kd == <<d, dst, a>>
        rc1 == ClaimDel(sE, d, src, a)
    IN  IF ~rc1.ok THEN Fail(rc1.err, s)
        ELSE
          LET rc2 == IF kd \in DOMAIN rc1.s.dels THEN ClaimDel(rc1.s, d, dst, a)
                     ELSE IF SettleNewDst THEN (IF CVRPanics(rc1.s, dst) THEN Fail("panic: division by zero", s) ELSE Ok(CVR(rc1.s, dst)))
                     ELSE Ok(rc1.s)
          IN  IF ~rc2.ok THEN Fail(rc2.err, s)
              ELSE
                LET s1 == rc2.s
                    sinfo == s1.vals[src]
                    dinfo == s1.vals[dst]
                    sdel == rc1.s.dels[ks]      \* re-queried after the first claim only
                IN  LET vr == ValidateAmt(asset, sinfo, a, sdel.shares, x)
                      IN  IF vr.panic THEN Fail("panic: division by zero", s)
                          ELSE IF ~vr.ok THEN Fail("insufficient delegation shares", s)
                          ELSE IF BLt(DelTokens(asset, sinfo, a, vr.shares), x) THEN Fail("insufficient tokens", s)
                          ELSE IF HasRedelegationInto(s1, d, src, a) THEN Fail("transitive redelegation", s)
                          ELSE IF ValidatorSharesDivZero(asset) THEN Fail("panic: division by zero", s)
                          ELSE
                            LET t == s.now + UnbondingTime(s)
                                chg == ValSharesToRemove(asset, sinfo, a, x)
                                left == BSub(sdel.shares, vr.shares)
                                s2 == IF IsZero(left) THEN [s1 EXCEPT !.dels = DropKey(@, ks)]
                                      ELSE [s1 EXCEPT !.dels[ks] = [sdel EXCEPT !.shares = left]]
                            IN  IF ReducePanics(sinfo, a, vr.shares, chg) THEN Fail("panic: negative coin amount", s)
                                ELSE
                                  LET sinfo2 == ReduceInfo(sinfo, a, vr.shares, chg)
                                      s3 == [s2 EXCEPT !.vals[src] = sinfo2]
                                      cd == ClearDust(s3, d, src, a, sinfo2, asset)
                                  IN  IF cd.panic THEN Fail("panic: negative coin amount", s)
                                      ELSE IF NewDelSharesPanics(asset, dinfo, a) THEN Fail("panic: division by zero", s)
                                      ELSE
                                        LET newShares == NewDelShares(asset, dinfo, a, x)
                                            s4 == Upsert(cd.s, d, dst, a, newShares, dinfo)
                                            s5 == [s4 EXCEPT !.vals[dst] = AddInfo(dinfo, a, newShares, chg)]
                                            rk == <<d, a, dst, t>>
                                            rec == IF rk \in DOMAIN s5.redRec THEN [s5.redRec[rk] EXCEPT !.bal = BAdd(@, x)]
                                                   ELSE [d |-> d, src |-> src, dst |-> dst, a |-> a, bal |-> x]
                                            s6 == [s5 EXCEPT !.redRec = SetKey(@, rk, rec),
                                                             !.redIdx = @ \cup {<<src, t, a, dst, d>>},
                                                             !.redQ = AppendAt(@, t, [d |-> d, src |-> src, dst |-> dst, a |-> a, bal |-> x]),
                                                             !.flag = TRUE]
                                        IN  Ok(s6)

\* Msg server ClaimDelegationRewards
Claim(s, d, v, a) ==
  IF a = "" THEN Fail("denom must have a value", s)
  ELSE IF ~ValExists(s, v) THEN Fail("validator does not exist", s)
  ELSE LET r == ClaimDel(Ensure(s, v), d, v, a) IN IF r.ok THEN r ELSE Fail(r.err, s)

-----------------------------------------------------------------------------
(* keeper/slash.go, keeper/hooks.go — NOT atomic *)

\* slashRedelegations: entries of the by-source index in key order (time, denom, destination, delegator).
\* CapAtPosition = TRUE models the repaired tree (F6): a missing destination position is skipped and the
\* slash is capped at what the position holds.
RECURSIVE SlashRedLoop(_, _, _, _)
SlashRedLoop(s, keys, f, CapAtPosition) ==
  IF keys = <<>> THEN Ok(s)
  ELSE
    LET ik == Head(keys)            \* <<src, t, a, dst, d>>
        rk == <<ik[5], ik[3], ik[4], ik[2]>>
    IN  IF ik[2] < s.now THEN SlashRedLoop(s, Tail(keys), f, CapAtPosition)
        ELSE IF rk \notin DOMAIN s.redRec THEN Fail("empty address string is not allowed", s)
        ELSE
          LET rec == s.redRec[rk]
              d == rec.d  dst == rec.dst  a == rec.a
              k == <<d, dst, a>>
          IN  IF ~ValExists(s, dst) THEN Fail("validator does not exist", s)
              ELSE IF CapAtPosition /\ k \notin DOMAIN s.dels THEN SlashRedLoop(Ensure(s, dst), Tail(keys), f, CapAtPosition)
              \* fix F8: an asset that has been deleted since is looked up (and the entry skipped) before its rewards are claimed
              ELSE IF a \notin DOMAIN s.assets THEN SlashRedLoop(Ensure(s, dst), Tail(keys), f, CapAtPosition)
              ELSE
                LET rc == ClaimDel(Ensure(s, dst), d, dst, a)
                IN  IF ~rc.ok THEN Fail(rc.err, Ensure(s, dst))
                    ELSE IF k \notin DOMAIN rc.s.dels \/ a \notin DOMAIN rc.s.assets \/ (FixF6b /\ IsZero(rc.s.dels[k].shares))
                         THEN SlashRedLoop(rc.s, Tail(keys), f, CapAtPosition)
                    ELSE
                      LET s1 == rc.s
                          asset == s1.assets[a]
                          info == s1.vals[dst]
                          del == s1.dels[k]
                          want0 == TruncInt(DMulInt(f, rec.bal))
                          held == DelTokens(asset, info, a, del.shares)
                          want == IF CapAtPosition /\ BLt(held, want0) THEN held ELSE want0
                      IN  LET vr == ValidateAmt(asset, info, a, del.shares, want)
                            IN  IF vr.panic THEN Fail("panic: division by zero", s1)
                                ELSE IF ~vr.ok THEN Fail("insufficient delegation shares", s1)
                                ELSE IF BLt(Get(info.dshares, a), vr.shares) THEN Fail("panic: negative coin amount", s1)
                                ELSE
                                  LET left == BSub(del.shares, vr.shares)
                                      s2 == [s1 EXCEPT !.vals[dst].dshares = Put(@, a, BSub(Get(@, a), vr.shares)),
                                                       !.dels = IF FixF6b /\ IsZero(left) THEN DropKey(@, k) ELSE [@ EXCEPT ![k].shares = left]]
                                  IN  SlashRedLoop(s2, Tail(keys), f, CapAtPosition)

\* slash every entry of a bucket (the code on the unrepaired tree), or only those of validator v and denom a
RECURSIVE SlashEntries(_, _, _, _, _)
SlashEntries(entries, f, OnlyOwn, v, a) ==
  IF entries = <<>> THEN [entries |-> <<>>, taken |-> NoCoins]
  ELSE
    LET e == Head(entries)
        rest == SlashEntries(Tail(entries), f, OnlyOwn, v, a)
        hit == ~OnlyOwn \/ (e.v = v /\ e.a = a)
        cut == IF hit THEN TruncInt(DMulInt(f, e.bal)) ELSE "0"
    IN  [entries |-> <<[e EXCEPT !.bal = BSub(@, cut)]>> \o rest.entries,
         taken |-> CoinsAdd(Coin(e.a, cut), rest.taken)]

\* slashUndelegations: index keys <<v, t, a, d>> in key order (time, denom, delegator).
\* OnlyOwn = TRUE models the repaired tree (F2).
RECURSIVE SlashUnbLoop(_, _, _, _)
SlashUnbLoop(s, keys, f, OnlyOwn) ==
  IF keys = <<>> THEN Ok(s)
  ELSE
    LET ik == Head(keys)
        bk == <<ik[2], ik[4]>>
    IN  IF ik[2] < s.now THEN SlashUnbLoop(s, Tail(keys), f, OnlyOwn)
        ELSE
          LET entries == IF bk \in DOMAIN s.unbQ THEN s.unbQ[bk] ELSE <<>>
              r == SlashEntries(entries, f, OnlyOwn, ik[1], ik[3])
          IN  IF ~CoinsGE(s.bank.custody, r.taken) THEN Fail("insufficient funds", s)
              ELSE SlashUnbLoop([s EXCEPT !.unbQ = SetKey(@, bk, r.entries),
                                          !.bank.custody = CoinsSub(@, r.taken),
                                          !.bank.fee = CoinsAdd(@, r.taken)], Tail(keys), f, OnlyOwn)

\* SlashValidator part 1: bonded shares of every asset on v
SlashBonded(s, v, f) ==
  LET info == s.vals[v]
      as == DOMAIN info.vshares
      cut(a) == DMul(info.vshares[a], f)
  IN  IF \E a \in as : a \notin DOMAIN s.assets THEN Fail("unknown asset", s)   \* (earlier assets already written; unreachable: assets with shares cannot be deleted)
      ELSE Ok([s EXCEPT !.assets = [a \in DOMAIN @ |-> IF a \in as THEN [@[a] EXCEPT !.vshares = BSub(@, cut(a))] ELSE @[a]],
                        !.vals[v].vshares = [a \in {a \in as : ~IsZero(BSub(info.vshares[a], cut(a)))} |-> BSub(info.vshares[a], cut(a))]])

RedIdxOf(s, v) == SortBy({k \in s.redIdx : k[1] = v}, LAMBDA k : <<k[2], DenIdx(k[3]), ValIdx(k[4]), DelIdx(k[5])>>)
UnbIdxOf(s, v) == SortBy({k \in s.unbIdx : k[1] = v}, LAMBDA k : <<k[2], DenIdx(k[3]), DelIdx(k[4])>>)

\* Hooks.BeforeValidatorSlashed
SlashHook(s, v, f, OnlyOwn, CapAtPosition) ==
  IF ~IsPos(f) \/ BLt(ONE, f) THEN Fail("slashed fraction must be in (0,1]", s)
  ELSE IF ~ValExists(s, v) THEN Fail("validator does not exist", s)
  ELSE
    LET r1 == SlashBonded(Ensure(s, v), v, f)
    IN  IF ~r1.ok THEN r1
        ELSE LET r2 == SlashRedLoop(r1.s, RedIdxOf(r1.s, v), f, CapAtPosition)
             IN  IF ~r2.ok THEN r2
                 ELSE LET r3 == SlashUnbLoop(r2.s, UnbIdxOf(r2.s, v), f, OnlyOwn)
                      IN  IF ~r3.ok THEN r3 ELSE Ok([r3.s EXCEPT !.flag = TRUE])

-----------------------------------------------------------------------------
(* keeper/asset.go *)

\* UpdateAllianceAsset(newAsset): settle every validator at the old weight and snapshot it when the weight changes
RECURSIVE SettleAll(_, _, _, _)
SettleAll(s, vseq, a, oldW) ==
  IF vseq = <<>> THEN Ok(s)
  ELSE LET v == Head(vseq)
       IN  IF ~ValExists(s, v) THEN Fail("validator does not exist", s)
           ELSE IF CVRPanics(s, v) THEN Fail("panic: division by zero", s)
           ELSE LET s1 == CVR(s, v)
                    s2 == [s1 EXCEPT !.snaps = SetKey(@, <<a, v, s.height>>, [prevW |-> oldW, hist |-> HistOfAlliance(s1.vals[v].hist, a)])]
                IN  SettleAll(s2, Tail(vseq), a, oldW)

InfoSeq(s) == SortBy(DOMAIN s.vals, LAMBDA v : <<ValIdx(v)>>)

UpdateAsset(s, a, new) ==       \* new: [take, weight, rate, chgInt, lastChg, wmin, wmax]
  IF a \notin DOMAIN s.assets THEN Fail("unknown asset", s)
  ELSE IF BLt(new.weight, new.wmin) \/ BLt(new.wmax, new.weight) THEN Fail("weight out of bound", s)
  ELSE
    LET old == s.assets[a]
        r1 == IF new.weight # old.weight
              THEN LET r == SettleAll(s, InfoSeq(s), a, old.weight) IN IF r.ok THEN Ok([r.s EXCEPT !.flag = TRUE]) ELSE r
              ELSE Ok(s)
    IN  IF ~r1.ok THEN r1
        ELSE
          LET lastChg == IF (new.rate # old.rate \/ new.chgInt # old.chgInt) /\ (old.rate = ONE \/ old.chgInt = 0)
                         THEN s.now ELSE new.lastChg
          IN  Ok([r1.s EXCEPT !.assets[a] = [@ EXCEPT !.take = new.take, !.weight = new.weight, !.rate = new.rate,
                                                       !.chgInt = new.chgInt, !.lastChg = lastChg,
                                                       !.wmin = new.wmin, !.wmax = new.wmax]])

\* CompleteRedelegations (never fails; stops silently at the first delete error, which cannot happen here)
RECURSIVE DropRedEntries(_, _, _)
DropRedEntries(s, t, entries) ==
  IF entries = <<>> THEN s
  ELSE LET e == Head(entries)
       IN  DropRedEntries([s EXCEPT !.redRec = DropKey(@, <<e.d, e.a, e.dst, t>>),
                                    !.redIdx = @ \ {<<e.src, t, e.a, e.dst, e.d>>}], t, Tail(entries))
RECURSIVE CompleteReds(_, _)
CompleteReds(s, ts) ==
  IF ts = <<>> THEN s
  ELSE LET t == Head(ts)
           s1 == DropRedEntries(s, t, s.redQ[t])
       IN  CompleteReds([s1 EXCEPT !.redQ = DropKey(@, t)], Tail(ts))
CompleteRedelegations(s) == CompleteReds(s, SortBy({t \in DOMAIN s.redQ : t < s.now}, LAMBDA t : <<t>>))

\* CompleteUnbondings: buckets with completion time strictly before the block time, in (time, delegator) order
RECURSIVE PayEntries(_, _, _)
PayEntries(s, t, entries) ==
  IF entries = <<>> THEN Ok(s)
  ELSE LET e == Head(entries)
       IN  IF ~CoinsGE(s.bank.custody, Coin(e.a, e.bal)) THEN Fail("insufficient funds", s)
           ELSE PayEntries([Pay(s, "custody", e.d, Coin(e.a, e.bal)) EXCEPT !.unbIdx = @ \ {<<e.v, t, e.a, e.d>>}], t, Tail(entries))
RECURSIVE CompleteUnbs(_, _)
CompleteUnbs(s, ks) ==
  IF ks = <<>> THEN Ok(s)
  ELSE LET k == Head(ks)
           r == PayEntries(s, k[1], s.unbQ[k])
       IN  IF ~r.ok THEN r ELSE CompleteUnbs([r.s EXCEPT !.unbQ = DropKey(@, k)], Tail(ks))
CompleteUnbondings(s) ==
  LET r == CompleteUnbs(s, SortBy({k \in DOMAIN s.unbQ : k[1] < s.now}, LAMBDA k : <<k[1], DelIdx(k[2])>>))
  IN  IF ~r.ok THEN r
      ELSE \* burn stray staking coins held by the module account
           LET stray == Get(r.s.bank.custody, BondDenom)
           IN  Ok([r.s EXCEPT !.bank.custody = Put(@, BondDenom, "0"), !.bank.supplyBond = BSub(@, stray)])

InitAssets(s) ==
  [s EXCEPT !.assets = [a \in DOMAIN @ |-> IF ~@[a].init /\ Started(@[a], s.now) THEN [@[a] EXCEPT !.init = TRUE] ELSE @[a]]]

\* DeductAssetsHook / DeductAssetsWithTakeRate
TakeRateNew(asset, n) == DMulInt(DPow(BSub(ONE, asset.take), n), asset.total)       \* Dec
Chargeable(asset, now) == IsPos(asset.total) /\ IsPos(asset.take) /\ Started(asset, now)
TakeRate(s) ==
  LET last == s.params.last  I == s.params.interval
  IN  IF last = -1
      THEN Ok([s EXCEPT !.params.last = s.now])        \* zero time: "next" lies far in the past; the clock is started
      ELSE IF ~(s.now > last + I) THEN Ok(s)
      ELSE IF I = 0 THEN Fail("panic: integer divide by zero", s)
      ELSE
        LET n == (s.now - last) \div I
            ch == {a \in DOMAIN s.assets : Chargeable(s.assets[a], s.now)}
            cut == {a \in ch : BLt(ONE, TakeRateNew(s.assets[a], n))}
            newTotal(a) == TruncInt(TakeRateNew(s.assets[a], n))
            coins == [a \in {a \in cut : ~IsZero(BSub(s.assets[a].total, newTotal(a)))} |-> BSub(s.assets[a].total, newTotal(a))]
            s1 == [s EXCEPT !.assets = [a \in DOMAIN @ |-> IF a \in cut THEN [@[a] EXCEPT !.total = newTotal(a)] ELSE @[a]]]
        IN  IF ch = {} THEN Ok([s EXCEPT !.params.last = s.now])
            ELSE IF IsEmptyMap(coins) THEN Ok(s1)
            ELSE IF ~CoinsGE(s1.bank.custody, coins) THEN Fail("insufficient funds", s1)
            ELSE Ok([s1 EXCEPT !.bank.custody = CoinsSub(@, coins), !.bank.fee = CoinsAdd(@, coins),
                               !.params.last = last + I * n])

\* RewardWeightChangeHook: assets in denom order, each through UpdateAllianceAsset
Clamp(w, lo, hi) == IF BLt(w, lo) THEN lo ELSE IF BLt(hi, w) THEN hi ELSE w
DecayDue(asset, now) == asset.chgInt # 0 /\ asset.rate # ONE /\ ~(asset.lastChg + asset.chgInt > now)
RECURSIVE DecayLoop(_, _)
DecayLoop(s, as) ==
  IF as = <<>> THEN Ok(s)
  ELSE
    LET a == Head(as)
        asset == s.assets[a]
    IN  IF ~DecayDue(asset, s.now) THEN DecayLoop(s, Tail(as))
        ELSE
          LET n == (s.now - asset.lastChg) \div asset.chgInt
              pw == DPow(asset.rate, n)
              w2 == Clamp(DMul(asset.weight, pw), asset.wmin, asset.wmax)
              new == [take |-> asset.take, weight |-> w2, rate |-> asset.rate, chgInt |-> asset.chgInt,
                      lastChg |-> asset.lastChg + asset.chgInt * n, wmin |-> asset.wmin, wmax |-> asset.wmax]
              r == UpdateAsset([s EXCEPT !.flag = TRUE], a, new)
          IN  \* the power is computed before the result is clamped to the range: it overflows for a rate above one and many intervals
              IF Overflow(pw) \/ Overflow(DMul(asset.weight, pw)) THEN Fail("panic: Int overflow", s)
              ELSE IF ~r.ok THEN r ELSE DecayLoop(r.s, Tail(as))
AssetSeq(s) == SortBy(DOMAIN s.assets, LAMBDA a : <<DenIdx(a)>>)
\* the hook works on the asset list read before InitAssets/TakeRate mutated it in place, which is the same
\* data because those steps mutate the shared in-memory copies
WeightDecay(s) == DecayLoop(s, AssetSeq(s))

-----------------------------------------------------------------------------
(* RebalanceBondTokenWeights against the staking view s.env.  The module's own effects (which validators *)
(* are settled, the flag) are computed here; x/staking's effects are taken from the environment in the   *)
(* open system and modelled at exchange rate 1 in the closed system (EnvRebalance in the MC modules).    *)

EnvVal(s, v) == s.env.vals[v]
IsBonded(s, v) == ValExists(s, v) /\ EnvVal(s, v).status = "bonded"
\* Validator.TokensFromShares(shares) = shares.MulInt(tokens).Quo(delegatorShares)   (Dec)
TokensFromShares(ev, shares) == IF IsZero(ev.dshares) THEN "0" ELSE DQuo(DMulInt(shares, ev.tokens), ev.dshares)
TokensFromSharesTrunc(ev, shares) == IF IsZero(ev.dshares) THEN "0" ELSE BQuo(BMul(BMul(shares, ev.tokens), ONE), ev.dshares)  \* QuoTruncate
ModTokensDec(s, v) == IF HasMod(s, v) THEN TokensFromShares(EnvVal(s, v), EnvVal(s, v).modShares) ELSE "0"
\* GetAllianceBondedAmount: sum over bonded validators of TokensFromSharesTruncated, truncated
AllianceBonded(s) ==
  TruncInt(BSum({v \in DOMAIN s.env.vals : HasMod(s, v) /\ IsBonded(s, v)},
                  LAMBDA v : TokensFromSharesTrunc(EnvVal(s, v), EnvVal(s, v).modShares)))
NativeBonded(s) == BSub(s.env.totalBonded, AllianceBonded(s))

UnbondedVShares(s, a) == BSum({v \in DOMAIN s.vals : ~IsBonded(s, v)}, LAMBDA v : Get(s.vals[v].vshares, a))
ExpectedBond(s, v, now) ==      \* Dec
  LET native == NativeBonded(s)
      term(a) == LET asset == s.assets[a]
                     vs == Get(s.vals[v].vshares, a)
                     bvs == BSub(asset.vshares, UnbondedVShares(s, a))
                 IN  IF Started(asset, now) /\ IsPos(vs) /\ IsPos(bvs)
                     THEN DMul(DQuo(vs, bvs), DMulInt(asset.weight, native)) ELSE "0"
  IN  BSum(DOMAIN s.assets, term)

\* +n: mint and delegate n; -n: unbond and burn n; 0: leave
RebalanceDelta(s, v) ==
  LET exp == ExpectedBond(s, v, s.now)
      cur == ModTokensDec(s, v)
  IN  IF BLt(cur, exp) THEN TruncInt(BSub(exp, cur))
      ELSE IF BLt(exp, cur) THEN BNeg(TruncInt(BSub(cur, exp)))
      ELSE "0"

\* full unbond of the module's delegation on v when `amt` tokens are removed (ValidateUnbondAmount caps at the delegation)
SharesFromTokensEnv(ev, amt) == IF IsZero(ev.tokens) THEN "0" ELSE DQuoInt(DMulInt(ev.dshares, amt), ev.tokens)
FullUnbond(s, v, amt) == ~BLt(SharesFromTokensEnv(EnvVal(s, v), amt), EnvVal(s, v).modShares)

\* Module-owned effects of RebalanceHook.  Validators are visited in address order; each adjusted validator is
\* settled first (ClaimValidatorRewards).  x/staking re-raises the flag through AfterDelegationModified whenever
\* the module's delegation is created or changed (not when it is removed).
BondedInfoSeq(s) == SortBy({v \in DOMAIN s.vals : IsBonded(s, v)}, LAMBDA v : <<ValIdx(v)>>)
RECURSIVE RebalanceLoop(_, _, _)
RebalanceLoop(s, pre, vseq) ==
  IF vseq = <<>> THEN Ok(s)
  ELSE
    LET v == Head(vseq)
        delta == RebalanceDelta(pre, v)
        requeue == \E a \in DOMAIN pre.assets : ~Started(pre.assets[a], pre.now)
        s1 == IF requeue THEN [s EXCEPT !.flag = TRUE] ELSE s
    IN  IF IsZero(delta) THEN RebalanceLoop(s1, pre, Tail(vseq))
        ELSE IF CVRPanics(s1, v) THEN Fail("panic: division by zero", s1)
        ELSE
          LET s2 == CVR(s1, v)
              modified == IsPos(delta) \/ FixF4 \/ ~FullUnbond(pre, v, BNeg(delta))
          IN  RebalanceLoop(IF modified THEN [s2 EXCEPT !.flag = TRUE] ELSE s2, pre, Tail(vseq))
RebalanceModule(s) ==
  IF ~s.flag THEN Ok(s)
  ELSE IF \E v \in DOMAIN s.vals : ~ValExists(s, v) THEN Fail("validator does not exist", [s EXCEPT !.flag = FALSE])
  ELSE LET s0 == [s EXCEPT !.flag = FALSE] IN RebalanceLoop(s0, s0, BondedInfoSeq(s0))

\* x/alliance EndBlocker (module-owned effects; NOT atomic, an error aborts the chain)
EndBlockPre(s) ==        \* everything before the rebalance
  LET s1 == CompleteRedelegations(s)
      r2 == CompleteUnbondings(s1)
  IN  IF ~r2.ok THEN r2
      ELSE LET s3 == InitAssets(r2.s)
               r4 == TakeRate(s3)
           IN  IF ~r4.ok THEN r4 ELSE WeightDecay(r4.s)
EndBlock(s) == LET r5 == EndBlockPre(s) IN IF ~r5.ok THEN r5 ELSE RebalanceModule(r5.s)

-----------------------------------------------------------------------------
(* keeper/msg_server.go, types/gov.go, proposal_handler.go: governance *)
IsNil(x) == x = "nil"
ValidDenom(a) == Pos(DenOrd, a) # 0          \* the harness only uses "", "x" (both invalid) and denoms of DenOrd
BadDec(x) == IsNil(x) \/ IsNeg(x)

CreateFieldsOk(e) ==
  /\ e.a # "" /\ ValidDenom(e.a)
  /\ ~BadDec(e.weight) /\ ~BadDec(e.wmin) /\ ~BadDec(e.wmax)
  /\ BLe(e.wmin, e.wmax)
  /\ BLe(e.wmin, e.weight) /\ BLe(e.weight, e.wmax)
  /\ ~BadDec(e.take) /\ BLt(e.take, ONE)
  /\ ~IsNil(e.rate) /\ IsPos(e.rate)
  /\ e.chgInt >= 0

GovCreate(s, e) ==
  IF ~e.legacy /\ e.signer = "bad" THEN Fail("invalid authority address", s)
  ELSE IF ~CreateFieldsOk(e) THEN Fail("invalid argument", s)
  ELSE IF ~e.legacy /\ e.signer # "authority" THEN Fail("invalid authority", s)
  ELSE IF e.a \in DOMAIN s.assets THEN Fail("already exists", s)
  ELSE LET start == s.now + s.params.delay
       IN  Ok([s EXCEPT !.assets = SetKey(@, e.a, [weight |-> e.weight, wmin |-> e.wmin, wmax |-> e.wmax, take |-> e.take,
                                                   total |-> "0", vshares |-> "0", start |-> start, rate |-> e.rate,
                                                   chgInt |-> e.chgInt, lastChg |-> start, init |-> FALSE])])

\* the message path checks the range only against the weight; the legacy content's ValidateBasic checks it fully
UpdateFieldsOk(e) ==
  /\ e.a # ""
  /\ ~BadDec(e.weight)
  /\ ~BadDec(e.take) /\ BLt(e.take, ONE)
  /\ ~IsNil(e.rate) /\ IsPos(e.rate)
  /\ e.chgInt >= 0
  /\ ~IsNil(e.wmin) /\ ~IsNil(e.wmax)
  /\ (e.legacy => ~IsNeg(e.wmin) /\ ~IsNeg(e.wmax) /\ BLe(e.wmin, e.wmax))
  /\ BLe(e.wmin, e.weight) /\ BLe(e.weight, e.wmax)

GovUpdate(s, e) ==
  IF ~e.legacy /\ e.signer = "bad" THEN Fail("invalid authority address", s)
  ELSE IF ~UpdateFieldsOk(e) THEN Fail("invalid argument", s)
  ELSE IF ~e.legacy /\ e.signer # "authority" THEN Fail("invalid authority", s)
  ELSE IF e.a \notin DOMAIN s.assets THEN Fail("unknown asset", s)
  ELSE LET r == UpdateAsset(s, e.a, [take |-> e.take, weight |-> e.weight, rate |-> e.rate, chgInt |-> e.chgInt,
                                     lastChg |-> s.assets[e.a].lastChg, wmin |-> e.wmin, wmax |-> e.wmax])
       IN  IF r.ok THEN r ELSE Fail(r.err, s)

GovDelete(s, e) ==
  IF ~e.legacy /\ e.signer = "bad" THEN Fail("invalid authority address", s)
  ELSE IF e.a = "" THEN Fail("invalid argument", s)
  ELSE IF ~e.legacy /\ e.signer # "authority" THEN Fail("invalid authority", s)
  ELSE IF e.a \notin DOMAIN s.assets THEN Fail("unknown asset", s)
  ELSE IF IsPos(s.assets[e.a].total) THEN Fail("active delegations exist", s)
  ELSE Ok([s EXCEPT !.assets = DropKey(@, e.a)])

\* RejectZeroInterval = TRUE models the repaired tree (F1)
GovParams(s, e, RejectZeroInterval) ==
  IF e.signer = "bad" THEN Fail("invalid authority address", s)
  ELSE IF e.delay < 0 THEN Fail("duration must be positive", s)
  ELSE IF RejectZeroInterval /\ e.interval <= 0 THEN Fail("interval must be positive", s)
  ELSE IF e.signer # "authority" THEN Fail("invalid authority", s)
  ELSE IF e.interval < 0 THEN Fail("duration must be positive", s)
  ELSE Ok([s EXCEPT !.params = [delay |-> e.delay, interval |-> e.interval, last |-> e.last]])

-----------------------------------------------------------------------------
(* keeper/genesis.go: export, wipe, import.  FlagOnImport = TRUE models the repaired tree (F7). *)
RECURSIVE TwiceEach(_)
TwiceEach(sq) == IF sq = <<>> THEN <<>> ELSE <<Head(sq), Head(sq)>> \o TwiceEach(Tail(sq))

RedRecSeq(s) == SortBy(DOMAIN s.redRec, LAMBDA k : <<DelIdx(k[1]), DenIdx(k[2]), ValIdx(k[3]), k[4]>>)
Reimport(s, FlagOnImport) ==
  LET recs == s.redRec
      \* a record is re-keyed by its own fields (they equal the key fields for records written by Redelegate)
      newKey(k) == <<recs[k].d, recs[k].a, recs[k].dst, k[4]>>
      ts == {k[4] : k \in DOMAIN recs}
      entryOf(k) == [d |-> recs[k].d, src |-> recs[k].src, dst |-> recs[k].dst, a |-> recs[k].a, bal |-> recs[k].bal]
      atT(t) == SelectSeq(RedRecSeq(s), LAMBDA k : k[4] = t)
      buckets == {k \in DOMAIN s.unbQ : s.unbQ[k] # <<>>}
      bkey(k) == <<k[1], s.unbQ[k][1].d>>
  IN  [s EXCEPT !.redRec = [nk \in {newKey(k) : k \in DOMAIN recs} |-> recs[CHOOSE k \in DOMAIN recs : newKey(k) = nk]],
                !.redIdx = {<<recs[k].src, k[4], recs[k].a, recs[k].dst, recs[k].d>> : k \in DOMAIN recs},
                !.redQ = [t \in ts |-> TwiceEach([i \in 1..Len(atT(t)) |-> entryOf(atT(t)[i])])],
                !.unbQ = [nk \in {bkey(k) : k \in buckets} |-> s.unbQ[CHOOSE k \in buckets : bkey(k) = nk]],
                !.unbIdx = UNION {{<<s.unbQ[k][i].v, k[1], s.unbQ[k][i].a, s.unbQ[k][1].d>> : i \in DOMAIN s.unbQ[k]} : k \in buckets},
                !.flag = FlagOnImport]

=============================================================================
