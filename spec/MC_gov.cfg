SPECIFICATION Spec
CONSTANTS
  ValOrd <- ValOrdC
  DelOrd <- DelOrdC
  DenOrd <- DenOrdC
  BondDenom = "stake"
  FixF1 = TRUE
  FixF2 = TRUE
  FixF4 = TRUE
  FixF5 = TRUE
  FixF6 = TRUE
  FixF6b = TRUE
  FixF7 = TRUE
  FixN1 = TRUE
  FixN3 = TRUE
  FixK11 = TRUE
  Vals = {"v0"}
  Dels = {"d0"}
  Assets = {"ast0"}
  Amounts = {"4"}
  Fractions = {}
  Gaps = {1, 3}
  AccrueCoins <- AccrueC
  InitAssets0 <- InitAssetsC
  Params0 <- ParamsC
  Unbonding0 = 1
  SelfStake0 = "5000000"
  Funds0 = "1000000"
  Actions <- MCActions
  GovEventsC <- GovC
  Prefix <- PrefixC
  NativeAmounts = {}
  MaxDepth = 4
  MaxBlocks = 2
INVARIANT NoViolation

VIEW View
CHECK_DEADLOCK FALSE
