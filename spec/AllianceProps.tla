---------------------------- MODULE AllianceProps ----------------------------
(***************************************************************************)
(* The properties C01..C20 as operators over abstract states, recorded     *)
(* steps, probe results and ghost ledgers.  Each operator returns the SET  *)
(* of violation messages (empty = the property holds at this state/step),  *)
(* so that one pass over a trace reports every failure.                    *)
(*                                                                         *)
(*   JudgeState(s, rec, gh)       state predicates (every recorded state)  *)
(*   Judge(pre, rec, post, gh, gh2)  step predicates (every recorded step) *)
(*   GhostNext                    ledgers: unbondings, redelegations,      *)
(*                                deposits, take-rate clock explanation    *)
(* The same operators are used by the closed models (MC_*.tla).            *)
(***************************************************************************)
EXTENDS Alliance

\* a violation message; kf names the listed known finding whose root-cause operator holds for it ("" = none)
Msg(p, m) == [p |-> p, m |-> m, kf |-> ""]
Check(p, cond, m) == IF cond THEN {} ELSE {Msg(p, m)}
CheckK(p, cond, kf, m) == IF cond THEN {} ELSE {[p |-> p, m |-> m, kf |-> kf]}

-----------------------------------------------------------------------------
(* JSON projection -> abstract state *)
AmtMap(sq) == [a \in {sq[i].a : i \in DOMAIN sq} |-> (CHOOSE i \in DOMAIN sq : sq[i].a = a) ]
Amts(sq) == LET nz == {i \in DOMAIN sq : sq[i].x # "0"} IN [a \in {sq[i].a : i \in nz} |-> sq[CHOOSE i \in nz : sq[i].a = a].x]
HistMap(sq) == [k \in {<<sq[i].al, sq[i].rd>> : i \in DOMAIN sq} |-> sq[CHOOSE i \in DOMAIN sq : <<sq[i].al, sq[i].rd>> = k].idx]
ByKey(sq, key(_), val(_)) == [k \in {key(sq[i]) : i \in DOMAIN sq} |-> val(sq[CHOOSE i \in DOMAIN sq : key(sq[i]) = k])]

NormState(j) ==
  [ now |-> j.now, height |-> j.height,
    params |-> [delay |-> j.params.delay, interval |-> j.params.interval, last |-> j.params.last],
    assets |-> ByKey(j.assets, LAMBDA r : r.a,
                     LAMBDA r : [weight |-> r.weight, wmin |-> r.wmin, wmax |-> r.wmax, take |-> r.take, total |-> r.total,
                                 vshares |-> r.vshares, start |-> r.start, rate |-> r.rate, chgInt |-> r.chgInt,
                                 lastChg |-> r.lastChg, init |-> r.init]),
    vals |-> ByKey(j.vals, LAMBDA r : r.v, LAMBDA r : [vshares |-> Amts(r.vshares), dshares |-> Amts(r.dshares), hist |-> HistMap(r.hist)]),
    dels |-> ByKey(j.dels, LAMBDA r : <<r.d, r.v, r.a>>, LAMBDA r : [shares |-> r.shares, hist |-> HistMap(r.hist), lastH |-> r.lastH]),
    bals |-> ByKey(j.dels, LAMBDA r : <<r.d, r.v, r.a>>, LAMBDA r : r.bal),
    unbQ |-> ByKey(j.unbQ, LAMBDA r : <<r.t, r.d>>, LAMBDA r : [i \in DOMAIN r.entries |-> [d |-> r.entries[i].d, v |-> r.entries[i].v, a |-> r.entries[i].a, bal |-> r.entries[i].bal]]),
    unbIdx |-> {<<j.unbIdx[i].v, j.unbIdx[i].t, j.unbIdx[i].a, j.unbIdx[i].d>> : i \in DOMAIN j.unbIdx},
    redRec |-> ByKey(j.redRec, LAMBDA r : <<r.d, r.a, r.dst, r.t>>, LAMBDA r : [d |-> r.rd, src |-> r.src, dst |-> r.rdst, a |-> r.ra, bal |-> r.bal]),
    redIdx |-> {<<j.redIdx[i].src, j.redIdx[i].t, j.redIdx[i].a, j.redIdx[i].dst, j.redIdx[i].d>> : i \in DOMAIN j.redIdx},
    redQ |-> ByKey(j.redQ, LAMBDA r : r.t, LAMBDA r : [i \in DOMAIN r.entries |-> [d |-> r.entries[i].d, src |-> r.entries[i].src, dst |-> r.entries[i].dst, a |-> r.entries[i].a, bal |-> r.entries[i].bal]]),
    flag |-> j.flag,
    snaps |-> ByKey(j.snaps, LAMBDA r : <<r.a, r.v, r.h>>, LAMBDA r : [prevW |-> r.prevW, hist |-> HistMap(r.hist)]),
    bank |-> [custody |-> Amts(j.bank.custody), rewards |-> Amts(j.bank.rewards), fee |-> Amts(j.bank.fee),
              users |-> ByKey(j.bank.users, LAMBDA r : r.d, LAMBDA r : Amts(r.coins)),
              supplyBond |-> j.bank.supplyBond, donated |-> Amts(j.bank.donated)],
    env |-> [unbonding |-> j.env.unbonding, totalBonded |-> j.env.totalBonded,
             vals |-> ByKey(j.env.vals, LAMBDA r : r.v,
                            LAMBDA r : [status |-> r.status, jailed |-> r.jailed, tokens |-> r.tokens, dshares |-> r.dshares,
                                        modShares |-> r.modShares, hasMod |-> r.hasMod, pending |-> Amts(r.pending)])],
    invBroken |-> j.invBroken ]


-----------------------------------------------------------------------------
(* rationals as <<num, den>> with den > 0, over BigNum *)
Rat(n, d) == IF IsNeg(d) THEN <<BNeg(n), BNeg(d)>> ELSE <<n, d>>
RInt(n) == <<n, "1">>
RMul(a, b) == <<BMul(a[1], b[1]), BMul(a[2], b[2])>>
RAdd(a, b) == <<BAdd(BMul(a[1], b[2]), BMul(b[1], a[2])), BMul(a[2], b[2])>>
RSub(a, b) == <<BSub(BMul(a[1], b[2]), BMul(b[1], a[2])), BMul(a[2], b[2])>>
RLe(a, b) == BLe(BMul(a[1], b[2]), BMul(b[1], a[2]))
RLt(a, b) == BLt(BMul(a[1], b[2]), BMul(b[1], a[2]))
RAbs(a) == <<BAbs(a[1]), a[2]>>
RFloor(a) == IF IsNeg(a[1]) THEN BNeg(BQuo(BAdd(BNeg(a[1]), BSub(a[2], 1)), a[2])) ELSE BQuo(a[1], a[2])
RCeil(a) == BNeg(RFloor(<<BNeg(a[1]), a[2]>>))
RZero == <<"0", "1">>
RSumSet(S, f(_)) == FoldSet(LAMBDA x, acc : RAdd(f(x), acc), RZero, S)
CeilDiv(a, b) == BQuo(BAdd(a, BSub(b, 1)), b)

-----------------------------------------------------------------------------
(* exact (unrounded) token value of shares and positions *)
\* tokens of validator v in asset a = vshares_v / S * T   (T when S = 0, as the code does)
ValTokRat(s, v, a) ==
  LET asset == s.assets[a]  vs == Get(Info(s, v).vshares, a)
  IN  IF IsZero(asset.vshares) THEN RInt(asset.total) ELSE Rat(BMul(vs, asset.total), asset.vshares)
\* value of `shares` delegation shares on v = shares / dshares_v * valTokens   (valTokens when dshares = 0)
SharesValueRat(s, v, a, shares) ==
  LET ds == Get(Info(s, v).dshares, a)
  IN  IF IsZero(ds) THEN ValTokRat(s, v, a) ELSE RMul(Rat(shares, ds), ValTokRat(s, v, a))
PosValueRat(s, k) == SharesValueRat(s, k[2], k[3], s.dels[k].shares)
PosValueOr0(s, k) == IF k \in DOMAIN s.dels /\ k[3] \in DOMAIN s.assets THEN PosValueRat(s, k) ELSE RZero

\* conditioning of the share price: how much one unit of rounding in a quotient is amplified
RatioCeil(a, b) == IF IsZero(b) THEN "1" ELSE BMax("1", CeilDiv(a, b))
Kappa(s, v, a) ==
  LET asset == s.assets[a]
      T == DecFromInt(asset.total)  S == asset.vshares
      info == Info(s, v)
      vt == ValTokensOf(asset, Get(info.vshares, a))  ds == Get(info.dshares, a)
  IN  BMax(BMax(RatioCeil(T, S), RatioCeil(S, T)), BMax(RatioCeil(vt, ds), RatioCeil(ds, vt)))
\* tolerance (in base units) granted to a token value that went through the two 18-digit quotients
TolTok(s, v, a, x) ==
  LET asset == s.assets[a]
      big == BMax(BMax(x, asset.total), TruncInt(ValTokensOf(asset, Get(Info(s, v).vshares, a))))
  IN  BAdd("1", CeilDiv(BMul(BMul("100", Kappa(s, v, a)), big), ONE))
TolMax(pre, post, v, a, x) ==
  IF a \in DOMAIN pre.assets /\ a \in DOMAIN post.assets THEN BMax(TolTok(pre, v, a, x), TolTok(post, v, a, x))
  ELSE IF a \in DOMAIN post.assets THEN TolTok(post, v, a, x) ELSE TolTok(pre, v, a, x)
Within(r, target, tol) == RLe(RAbs(RSub(r, target)), RInt(tol))

PositionsOf(s, a) == {k \in DOMAIN s.dels : k[3] = a}
PositionsOn(s, v, a) == {k \in DOMAIN s.dels : k[2] = v /\ k[3] = a}
AssetDenoms(s) == DOMAIN s.assets

\* K3b: the asset's share total is zero while tokens remain (every validator holding it was slashed by 100 %)
OrphanedTotal(s, a) == a \in DOMAIN s.assets /\ IsZero(s.assets[a].vshares) /\ IsPos(s.assets[a].total)
\* K8: validator v holds shares of asset a worth at least one token while fewer than one delegator share is recorded on it
\* (the value was left behind by a slash of a redelegation destination or by dust clearing, or the share price has grown
\* through slashes of other validators); tokens are then converted to delegator shares 1:1 (GetDelegationSharesFromTokens):
\* a newcomer receives that value, and a holder withdrawing part of a position gives up all of its shares or is refused
OrphanedOnValidator(s, v, a) ==
  /\ a \in DOMAIN s.assets
  /\ IsZero(TruncInt(Get(Info(s, v).dshares, a)))
  /\ ~IsZero(TruncInt(ValTokens(s.assets[a], Info(s, v), a)))
\* K8 (second mechanism): the share price on v has grown so far (slashes of other validators concentrate value) that the
\* 0.01-share margin of ValidateDelegatedAmount ("withdraw all when the difference is below the rounder") is worth a token or
\* more: a withdrawal of a few tokens then takes the whole position
PriceInflated(s, v, a) ==
  /\ a \in DOMAIN s.assets
  /\ IsPos(Get(Info(s, v).dshares, a))
  /\ BLe(BMul("100", Get(Info(s, v).dshares, a)), ValTokens(s.assets[a], Info(s, v), a))
UnbEntries(s) == {<<k, i>> : k \in DOMAIN s.unbQ, i \in 1..0} \cup UNION {{<<k, i>> : i \in DOMAIN s.unbQ[k]} : k \in DOMAIN s.unbQ}
UnbSum(s, a) == BSum({x \in UnbEntries(s) : s.unbQ[x[1]][x[2]].a = a}, LAMBDA x : s.unbQ[x[1]][x[2]].bal)

\* K13: x/staking removed validator v (no native delegation left, unbonding matured) while alliance positions were still
\* delegated to it; the hook deletes the module's validator record and the positions can neither claim nor leave.
\* gh.orphans maps each such validator to the per-asset validator shares its record held when it was deleted
OrphanShares(gh, a) == BSum(DOMAIN gh.orphans, LAMBDA v : Get(gh.orphans[v], a))
OrphansOf(gh, pre, post) ==
  LET gone == {v \in DOMAIN pre.env.vals : v \in DOMAIN post.env.vals /\ pre.env.vals[v].status # "removed" /\ post.env.vals[v].status = "removed"
                                           /\ v \in DOMAIN pre.vals /\ \E k \in DOMAIN post.dels : k[2] = v}
      keep == {v \in DOMAIN gh.orphans : \E k \in DOMAIN post.dels : k[2] = v}
  IN  [v \in keep \cup gone |-> IF v \in gone THEN pre.vals[v].vshares ELSE gh.orphans[v]]

-----------------------------------------------------------------------------
(* C01 custody *)
C01_State(s, gh) ==
  LET denoms == (DOMAIN s.assets \cup {s.unbQ[x[1]][x[2]].a : x \in UnbEntries(s)}) \ {BondDenom}
      owed(a) == BAdd(BAdd(IF a \in DOMAIN s.assets THEN s.assets[a].total ELSE "0", UnbSum(s, a)), Get(s.bank.donated, a))
  IN  UNION {CheckK("C01", Get(s.bank.custody, a) = owed(a),
                    \* K9: the excess is exactly the rewards in this denom that were withdrawn for validators without delegator shares
                    IF IsPos(Get(gh.stuck, a)) /\ Get(s.bank.custody, a) = BAdd(owed(a), Get(gh.stuck, a)) THEN "K9" ELSE "",
                    "custody of " \o a \o " is " \o Get(s.bank.custody, a) \o " but staked total + pending unbondings + donated = " \o owed(a)) : a \in denoms}

-----------------------------------------------------------------------------
(* C03 share ledger *)
C03_State(s, gh) ==
  LET va == {<<k[2], k[3]>> : k \in DOMAIN s.dels} \cup UNION {{<<v, a>> : a \in DOMAIN s.vals[v].dshares} : v \in DOMAIN s.vals}
      dsum(x) == BSum(PositionsOn(s, x[1], x[2]), LAMBDA k : s.dels[k].shares)
      vsum(a) == BSum(DOMAIN s.vals, LAMBDA v : Get(s.vals[v].vshares, a))
  IN  UNION {CheckK("C03", x[1] \in DOMAIN s.vals /\ dsum(x) = Get(s.vals[x[1]].dshares, x[2]),
                   IF x[1] \in DOMAIN gh.orphans /\ x[1] \notin DOMAIN s.vals THEN "K13" ELSE "",
                   "delegator shares on " \o x[1] \o "/" \o x[2] \o " sum to " \o dsum(x) \o " but the validator records " \o
                   (IF x[1] \in DOMAIN s.vals THEN Get(s.vals[x[1]].dshares, x[2]) ELSE "no info record")) : x \in va}
      \cup UNION {CheckK("C03", vsum(a) = s.assets[a].vshares,
                   IF IsPos(OrphanShares(gh, a)) /\ BAdd(vsum(a), OrphanShares(gh, a)) = s.assets[a].vshares THEN "K13" ELSE "",
                   "validator shares of " \o a \o " sum to " \o vsum(a) \o " but the asset records " \o s.assets[a].vshares) : a \in DOMAIN s.assets}
      \cup UNION {Check("C03", ~IsNeg(s.dels[k].shares), "negative delegation shares") : k \in DOMAIN s.dels}
      \cup UNION {Check("C03", \A a \in DOMAIN s.vals[v].vshares : ~IsNeg(s.vals[v].vshares[a]), "negative validator shares") : v \in DOMAIN s.vals}
      \cup UNION {Check("C03", \A a \in DOMAIN s.vals[v].dshares : ~IsNeg(s.vals[v].dshares[a]), "negative total delegator shares") : v \in DOMAIN s.vals}
      \cup UNION {Check("C03", ~IsNeg(s.assets[a].vshares) /\ ~IsNeg(s.assets[a].total), "negative asset total") : a \in DOMAIN s.assets}
      \cup UNION {Check("C03", IsZero(s.assets[a].total) => IsZero(s.assets[a].vshares) /\ \A v \in DOMAIN s.vals : IsZero(Get(s.vals[v].vshares, a)),
                   "asset " \o a \o " has a staked total of zero but share records remain") : a \in DOMAIN s.assets}
      \cup CheckK("C03", ~s.invBroken, IF DOMAIN gh.orphans # {} THEN "K13" ELSE "", "the module's own registered invariants report broken")

-----------------------------------------------------------------------------
(* C14 / C16 asset validity (state part) *)
AssetValid_State(s) ==
  UNION {LET x == s.assets[a] IN
           Check("C16", ~IsNeg(x.take) /\ BLt(x.take, ONE), "asset " \o a \o ": take rate outside [0,1)")
           \cup Check("C16", BLe(x.wmin, x.weight) /\ BLe(x.weight, x.wmax), "asset " \o a \o ": reward weight outside its range")
           \cup Check("C14", BLe(x.wmin, x.weight) /\ BLe(x.weight, x.wmax), "asset " \o a \o ": reward weight outside its range")
           \cup Check("C16", IsPos(x.rate), "asset " \o a \o ": change rate not positive")
           \cup Check("C16", x.chgInt >= 0, "asset " \o a \o ": negative change interval")
         : a \in DOMAIN s.assets}

-----------------------------------------------------------------------------
(* C15 / C02 structural consistency of the queues and their indexes *)
C15_State(s) ==
  UNION {Check("C15", <<k[5], k[3], k[4], k[2]>> \in DOMAIN s.redRec, "redelegation index key without a record") : k \in s.redIdx}
  \cup UNION {Check("C15", (\E i \in s.redIdx : i[2] = k[4] /\ i[3] = k[2] /\ i[4] = k[3] /\ i[5] = k[1])
                           /\ k[4] \in DOMAIN s.redQ /\ (\E j \in DOMAIN s.redQ[k[4]] : s.redQ[k[4]][j].d = k[1] /\ s.redQ[k[4]][j].a = k[2] /\ s.redQ[k[4]][j].dst = k[3]),
                    "redelegation record without index key or queue entry") : k \in DOMAIN s.redRec}
  \cup UNION {Check("C15", \A j \in DOMAIN s.redQ[t] : <<s.redQ[t][j].d, s.redQ[t][j].a, s.redQ[t][j].dst, t>> \in DOMAIN s.redRec,
                    "redelegation queue entry without a record") : t \in DOMAIN s.redQ}

C02_State(s) ==
  UNION {Check("C02", <<k[2], k[4]>> \in DOMAIN s.unbQ /\ (\E i \in DOMAIN s.unbQ[<<k[2], k[4]>>] : s.unbQ[<<k[2], k[4]>>][i].v = k[1] /\ s.unbQ[<<k[2], k[4]>>][i].a = k[3]),
               "unbonding index key without a pending entry") : k \in s.unbIdx}
  \cup UNION {Check("C02", <<s.unbQ[x[1]][x[2]].v, x[1][1], s.unbQ[x[1]][x[2]].a, s.unbQ[x[1]][x[2]].d>> \in s.unbIdx /\ s.unbQ[x[1]][x[2]].d = x[1][2],
               "pending unbonding entry without its per-validator index key") : x \in UnbEntries(s)}

-----------------------------------------------------------------------------
(* ghost ledgers *)
\* stall:   the take-rate clock legitimately lags: at the last due end-of-block every chargeable asset was too small to yield a
\*          whole unit (dust), so by design nothing was transferred and the clock stayed (root cause K5)
\* prevEnd: block time of the previous end-of-block (a block gap of several claim intervals is the other K5 root cause)
\* dep:     successful deposits into positions that still exist, with their block time (C09 non-retroactivity)
\* unb: sequence of [d, v, a, amt, due]  — what the unbonding queue must contain
\* red: sequence of [d, a, src, dst, amt, due] — pending redelegations as requested
\* slashed: a slash happened while reward indices existed (root cause K1: token values of positions were re-scaled
\*          under rewards that were already accrued)
\* k2:      per reward denom, the over-credit that the half-even rounding of the reward index can have produced so far
\*          (root cause K2); zero for small stakes
\* stuck:   rewards withdrawn from x/distribution for a validator without delegator shares: they stay in the module account
\*          (root cause K9)
\* ent:     reward entitlement ledger (C13): position -> reward denom -> rational amount accrued for it and not yet claimed
\* taint:   positions whose token value was changed by a slash or a take-rate deduction since rewards accrued for them
\*          (C13 does not speak about those; C12 does)
\* nacc:    position -> number of accruals since its last claim (index resolution allowance)
GhostInit == [unb |-> <<>>, red |-> <<>>, stall |-> FALSE, dep |-> <<>>, slashed |-> FALSE, k2 |-> NoCoins, stuck |-> NoCoins,
              ent |-> <<>>, taint |-> {}, nacc |-> <<>>, prevEnd |-> -1, diverged |-> "", zeroed |-> {}, orphans |-> <<>>, eslack |-> <<>>, k1 |-> NoCoins, unbOff |-> FALSE]
LedgerOfState(s) ==
  LET xs == SortBy(UnbEntries(s), LAMBDA x : <<x[1][1], DelIdx(x[1][2]), x[2]>>)
  IN  [i \in DOMAIN xs |-> [d |-> s.unbQ[xs[i][1]][xs[i][2]].d, v |-> s.unbQ[xs[i][1]][xs[i][2]].v, a |-> s.unbQ[xs[i][1]][xs[i][2]].a,
                            amt |-> s.unbQ[xs[i][1]][xs[i][2]].bal, due |-> xs[i][1][1]]]
GhostStart(s, rec) == [GhostInit EXCEPT !.unb = LedgerOfState(s)]

\* bags as functions element -> count
BagOfSeq(sq) == LET R == {sq[i] : i \in DOMAIN sq} IN [x \in R |-> Cardinality({i \in DOMAIN sq : sq[i] = x})]
UnbBagOfState(s) == BagOfSeq(LedgerOfState(s))

IsSlash(rec) == rec.ev = "SlashHook" \/ (rec.ev = "RealSlash" /\ rec.res.burned # "0" /\ rec.res.burned # "")
SlashFraction(rec) == IF rec.ev = "SlashHook" THEN rec.args.f ELSE rec.res.feff
SlashValid(rec) == IsSlash(rec) /\ IsPos(SlashFraction(rec)) /\ BLe(SlashFraction(rec), ONE)

\* the callback claims rewards for the destination positions of pending redelegations before it touches them: with a short
\* pool (K1 after a slash under existing indices, K2 rounding) that claim fails, the callback aborts and leaves the rest undone
RedDstOut(gh, pre, v) == {<<gh.red[i].d, gh.red[i].dst, gh.red[i].a>> : i \in {i \in DOMAIN gh.red : gh.red[i].src = v /\ gh.red[i].due >= pre.now}}
HookFundsKF(rec, gh, pre) ==
  IF rec.ev # "SlashHook" \/ rec.res.ok THEN ""
  ELSE IF rec.res.errc = "funds" THEN (IF gh.slashed THEN "K1" ELSE IF ~IsEmptyMap(gh.k2) THEN "K2" ELSE "")
  \* K8: the callback converts the tokens to take from a redelegation destination into shares with the 1:1 shortcut / the
  \* 0.01-share margin; on a destination validator in K8's state the conversion exceeds the position's shares and is refused
  ELSE IF rec.res.errc = "shares" /\ ValExists(pre, rec.args.v)
          /\ \E t \in RedDstOut(gh, pre, rec.args.v) : OrphanedOnValidator(pre, t[2], t[3]) \/ PriceInflated(pre, t[2], t[3]) THEN "K8"
  ELSE ""
KeyBag(sq) == BagOfSeq([i \in DOMAIN sq |-> <<sq[i].d, sq[i].v, sq[i].a, sq[i].due>>])
SlashLedger(unb, v, f, now) ==
  [i \in DOMAIN unb |-> IF unb[i].v = v /\ unb[i].due >= now THEN [unb[i] EXCEPT !.amt = BSub(@, TruncInt(DMulInt(f, @)))] ELSE unb[i]]

\* the state in which end-of-block changes weights: after the maturity sweeps, asset initialisation and the take rate
BeforeDecay(pre, rec) ==
  IF rec.ev # "EndBlock" THEN pre
  ELSE LET r2 == CompleteUnbondings(CompleteRedelegations(pre))
           r4 == TakeRate(InitAssets(r2.s))
       IN  r4.s
StoreView(s) == [params |-> s.params, assets |-> s.assets, vals |-> s.vals, dels |-> s.dels, unbQ |-> s.unbQ, unbIdx |-> s.unbIdx,
                 redRec |-> s.redRec, redIdx |-> s.redIdx, redQ |-> s.redQ, flag |-> s.flag, snaps |-> s.snaps]
\* the time queue is only used to find the records to delete at maturity: multiplicity and balances of its entries are unobservable
QueueView(s) == [t \in DOMAIN s.redQ |-> {<<s.redQ[t][i].d, s.redQ[t][i].src, s.redQ[t][i].dst, s.redQ[t][i].a>> : i \in DOMAIN s.redQ[t]}]
ObsView(s) == [StoreView(s) EXCEPT !.redQ = QueueView(s)]
\* K3: the validator records delegator shares of the asset but holds no tokens of it (after a 100 % slash); the share
\* conversion of a new deposit divides by zero
ZeroValued(s, v, a) == a \in DOMAIN s.assets /\ (NewDelSharesPanics(s.assets[a], Info(s, v), a) \/ ValidatorSharesDivZero(s.assets[a]))
MergedAny(red) == \E i, j \in DOMAIN red : red[i].d = red[j].d /\ red[i].dst = red[j].dst /\ red[i].a = red[j].a /\ red[i].due = red[j].due /\ red[i].src # red[j].src
\* ---- C13 entitlement ledger ----
RatCoinsAdd(f, g) == [k \in DOMAIN f \cup DOMAIN g |-> RAdd(IF k \in DOMAIN f THEN f[k] ELSE RZero, IF k \in DOMAIN g THEN g[k] ELSE RZero)]
\* positions that settle their rewards inside this event (the asset must have started, else the claim returns early)
Claimers(pre, rec) ==
  LET e == rec.args
      raw == CASE ~rec.res.ok -> {}
               [] rec.ev = "Claim" -> {<<e.d, e.v, e.a>>}
               [] rec.ev = "Delegate" -> {<<e.d, e.v, e.a>>}
               [] rec.ev = "Undelegate" -> {<<e.d, e.v, e.a>>}
               [] rec.ev = "Redelegate" -> {<<e.d, e.src, e.a>>, <<e.d, e.dst, e.a>>}
               [] OTHER -> {}
  IN  {k \in raw : k \in DOMAIN pre.dels /\ k[3] \in DOMAIN pre.assets /\ Started(pre.assets[k[3]], pre.now)}
\* exact pro-rata split of coins received for validator v among the positions on it, in state s
SplitFor(s, v, coins) ==
  LET info == Info(s, v)
      el == PoolEligible(s, info)
      wgt(a) == RMul(Rat(s.assets[a].weight, ONE), RMul(ValTokRat(s, v, a), Rat("1", s.assets[a].total)))
      tot == RSumSet(el, wgt)
      ks == {k \in DOMAIN s.dels : k[2] = v /\ k[3] \in el}
      share(k) == IF IsZero(tot[1]) \/ IsZero(ValTokRat(s, v, k[3])[1]) THEN RZero
                  ELSE RMul(RMul(wgt(k[3]), <<tot[2], tot[1]>>), RMul(PosValueRat(s, k), <<ValTokRat(s, v, k[3])[2], ValTokRat(s, v, k[3])[1]>>))
  IN  [k \in ks |-> [rd \in DOMAIN coins |-> RMul(RInt(coins[rd]), share(k))]]
\* rewards withdrawn from x/distribution for validator v in this step (they are indexed at that moment)
Withdrawn(pre, post, v) ==
  LET d == CoinsSub(Pending(pre, v), Pending(post, v)) IN [k \in {k \in DOMAIN d : IsPos(d[k])} |-> d[k]]
SettledVals(pre, post) == {v \in DOMAIN pre.env.vals : HasMod(pre, v) /\ v \in DOMAIN post.env.vals /\ ~IsEmptyMap(Withdrawn(pre, post, v))}
\* the state in which the step indexes them: messages settle first; end-of-block settles after its sweeps and the take rate
SettleState(pre, rec) == IF rec.ev = "EndBlock" THEN BeforeDecay(pre, rec) ELSE pre
\* ledger after the indexing of this step and before its claims
EntMid(gh, pre, rec, post) ==
  LET at == SettleState(pre, rec)
      vs == {v \in SettledVals(pre, post) : v \in DOMAIN at.vals /\ ~IsEmptyMap(Info(at, v).dshares) /\ ~PoolWeightless(at, v)}
      adds == [v \in vs |-> SplitFor(at, v, Withdrawn(pre, post, v))]
      keys == DOMAIN gh.ent \cup UNION {DOMAIN adds[v] : v \in vs}
  IN  [k \in keys |-> LET base == IF k \in DOMAIN gh.ent THEN gh.ent[k] ELSE <<>>
                       IN  IF \E v \in vs : k \in DOMAIN adds[v] THEN RatCoinsAdd(base, adds[CHOOSE v \in vs : k \in DOMAIN adds[v]][k]) ELSE base]
EntNext(gh, pre, rec, post) ==
  LET cl == Claimers(pre, rec)
      mid == EntMid(gh, pre, rec, post)
  IN  [k \in DOMAIN post.dels |-> IF k \in DOMAIN mid /\ k \notin cl THEN mid[k] ELSE <<>>]
\* resolution of the split at the moment of indexing: each asset's staked reward weight is an 18-digit number (absolute error
\* below 10^-18), so an asset's part of the coins received for v is exact only to coins * (number of assets + 1) / (sum of the
\* weights * 10^18); an asset whose weight rounds to zero gets nothing.  Kept per position until it claims, like the entitlement
SlackFor(s, v, coins) ==
  LET info == Info(s, v)
      el == PoolEligible(s, info)
      wgt(a) == RMul(Rat(s.assets[a].weight, ONE), RMul(ValTokRat(s, v, a), Rat("1", s.assets[a].total)))
      tot == RSumSet(el, wgt)
      ks == {k \in DOMAIN s.dels : k[2] = v /\ k[3] \in el}
      sl(rd) == IF IsZero(tot[1]) THEN "0" ELSE BAdd("1", RCeil(RMul(RInt(BMul(coins[rd], BFromInt(Cardinality(el) + 1))), <<tot[2], BMul(tot[1], ONE)>>)))
  IN  [k \in ks |-> [rd \in DOMAIN coins |-> sl(rd)]]
EslackMid(gh, pre, rec, post) ==
  LET at == SettleState(pre, rec)
      vs == {v \in SettledVals(pre, post) : v \in DOMAIN at.vals /\ ~IsEmptyMap(Info(at, v).dshares) /\ ~PoolWeightless(at, v)}
      adds == [v \in vs |-> SlackFor(at, v, Withdrawn(pre, post, v))]
      keys == DOMAIN gh.eslack \cup UNION {DOMAIN adds[v] : v \in vs}
  IN  [k \in keys |-> LET base == IF k \in DOMAIN gh.eslack THEN gh.eslack[k] ELSE <<>>
                       IN  IF \E v \in vs : k \in DOMAIN adds[v] THEN CoinsAdd(base, adds[CHOOSE v \in vs : k \in DOMAIN adds[v]][k]) ELSE base]
EslackNext(gh, pre, rec, post) ==
  LET cl == Claimers(pre, rec)
      mid == EslackMid(gh, pre, rec, post)
  IN  [k \in DOMAIN post.dels |-> IF k \in DOMAIN mid /\ k \notin cl THEN mid[k] ELSE <<>>]
ChargedAssets(pre, rec, post) == IF rec.ev = "EndBlock" THEN {a \in DOMAIN pre.assets \cap DOMAIN post.assets : pre.assets[a].total # post.assets[a].total} ELSE {}
TaintNext(gh, pre, rec, post) ==
  LET cl == Claimers(pre, rec)
      \* a slash re-scales every validator's tokens of the slashed validator's assets, which also shifts the split between the
      \* assets of each validator: every position is affected; a take-rate deduction affects the positions of the charged asset
      hitAssets == IF SlashValid(rec) /\ ValExists(pre, rec.args.v) /\ ~IsEmptyMap(Info(pre, rec.args.v).vshares) THEN DOMAIN post.assets ELSE ChargedAssets(pre, rec, post)
      \* a value jump through the known pricing defects (K3b, K8) taints the asset as well
      jumpy == {a \in DOMAIN post.assets : OrphanedTotal(post, a) \/ (a \in DOMAIN pre.assets /\ OrphanedTotal(pre, a))}
  IN  {k \in (gh.taint \ cl) \cup {k \in DOMAIN post.dels : k[3] \in hitAssets \cup jumpy} : k \in DOMAIN post.dels}
NaccNext(gh, pre, rec, post) ==
  LET cl == Claimers(pre, rec)
      vs == SettledVals(pre, post)
  IN  [k \in DOMAIN post.dels |-> (IF k \in DOMAIN gh.nacc /\ k \notin cl THEN gh.nacc[k] ELSE 0) + (IF k[2] \in vs /\ k \notin cl THEN 1 ELSE 0)]

GhostNext(gh, pre, rec, post, conforms) ==
  LET e == rec.args
      unb1 == CASE rec.ev = "Undelegate" /\ rec.res.ok ->
                     Append(gh.unb, [d |-> e.d, v |-> e.v, a |-> e.a, amt |-> e.x, due |-> pre.now + pre.env.unbonding])
                [] SlashValid(rec) /\ ValExists(pre, e.v) -> SlashLedger(gh.unb, e.v, SlashFraction(rec), pre.now)
                [] rec.ev = "EndBlock" -> SelectSeq(gh.unb, LAMBDA x : ~(x.due < pre.now))
                [] OTHER -> gh.unb
      \* resynchronise on the real queue when it disagrees (reported once by the step predicates)
      \* ... except when a slash left amounts unreduced (same entries, other amounts, and no listed finding aborted the callback):
      \* the ledger keeps what is owed - a minus the slashes - so that the payout is judged against it (C02)
      keepOwed == SlashValid(rec) /\ ValExists(pre, e.v) /\ HookFundsKF(rec, gh, pre) = "" /\ KeyBag(unb1) = KeyBag(LedgerOfState(post))
      unb2 == IF BagOfSeq(unb1) = UnbBagOfState(post) THEN unb1 ELSE IF keepOwed \/ (gh.unbOff /\ KeyBag(unb1) = KeyBag(LedgerOfState(post))) THEN unb1 ELSE LedgerOfState(post)
      unbOff2 == BagOfSeq(unb2) # UnbBagOfState(post)
      red1 == CASE rec.ev = "Redelegate" /\ rec.res.ok ->
                     Append(gh.red, [d |-> e.d, a |-> e.a, src |-> e.src, dst |-> e.dst, amt |-> e.x, due |-> pre.now + pre.env.unbonding])
                [] rec.ev = "EndBlock" -> SelectSeq(gh.red, LAMBDA x : ~(x.due < pre.now))
                [] OTHER -> gh.red
      dep1 == IF rec.ev = "Delegate" /\ rec.res.ok THEN Append(gh.dep, [k |-> <<e.d, e.v, e.a>>, t |-> pre.now]) ELSE gh.dep
      dep2 == SelectSeq(dep1, LAMBDA x : x.k \in DOMAIN post.dels)
      \* (a slash re-scales token values through the validator's own shares and through the destination positions of pending
      \* redelegations out of it)
      slashed2 == gh.slashed \/ (SlashValid(rec) /\ ValExists(pre, e.v)
                                 /\ (~IsEmptyMap(Info(pre, e.v).vshares) \/ \E i \in DOMAIN gh.red : gh.red[i].src = e.v /\ gh.red[i].due >= pre.now)
                                 /\ ((\E w \in DOMAIN pre.vals : DOMAIN pre.vals[w].hist # {}) \/ (\E w \in DOMAIN post.vals : DOMAIN post.vals[w].hist # {})))
      \* K1 budget: a slash raises the token value of positions (on the other validators, and of the co-delegators of a
      \* redelegation destination) whose reward indices are still outstanding: each such position can now claim its outstanding
      \* index times the value it gained, which nobody paid into the pool
      \* (the same arithmetic covers every other passive gain - a position whose shares did not change but whose value rose:
      \* the value jumps of K8 and K3b, where a deposit or a withdrawal of one delegator lands on another's position)
      k1add == IF rec.ev \in {"BeginBlock", "Accrue", "AccrueFees", "Claim", "StakingEndBlock"} THEN NoCoins
               ELSE LET ks == {k \in DOMAIN pre.dels \cap DOMAIN post.dels : k[3] \in DOMAIN pre.assets \cap DOMAIN post.assets /\ k[2] \in DOMAIN pre.vals
                                                                         /\ (SlashValid(rec) \/ pre.dels[k].shares = post.dels[k].shares)}
                        \* (the callback itself indexes the rewards pending for the destination validators before it cuts the destination
                        \* positions, whose co-delegators then gain: the outstanding index is taken after the step as well)
                        rdsOf(k) == {h[2] : h \in {h \in DOMAIN pre.vals[k[2]].hist \cup DOMAIN Info(post, k[2]).hist : h[1] = k[3]}}
                        idx(st, k, rd) == LET key == <<k[3], rd>> IN
                                            BSub(IF key \in DOMAIN Info(st, k[2]).hist THEN Info(st, k[2]).hist[key] ELSE "0",
                                                 IF key \in DOMAIN st.dels[k].hist THEN st.dels[k].hist[key] ELSE "0")
                        out(k, rd) == BMax(idx(pre, k, rd), idx(post, k, rd))
                        gain(k) == IF OrphanedTotal(post, k[3]) \/ OrphanedTotal(pre, k[3]) THEN RInt(post.assets[k[3]].total)
                                   ELSE LET g == RSub(PosValueRat(post, k), PosValueRat(pre, k)) IN IF IsNeg(g[1]) THEN RZero ELSE g
                        term(k, rd) == IF IsPos(out(k, rd)) THEN BAdd("1", RCeil(RMul(Rat(out(k, rd), ONE), gain(k)))) ELSE "0"
                        rds == UNION {rdsOf(k) : k \in ks}
                    IN  [rd \in {rd \in rds : \E k \in ks : rd \in rdsOf(k) /\ IsPos(out(k, rd))} |-> BSum({k \in ks : rd \in rdsOf(k)}, LAMBDA k : term(k, rd))]
      \* index updates of this step: (validator, alliance, reward denom) whose index grew
      upd == {<<v, k[1], k[2]>> : v \in DOMAIN post.vals \cap DOMAIN pre.vals, k \in {}} \cup
             UNION {{<<v, k[1], k[2]>> : k \in {k \in DOMAIN post.vals[v].hist : k \notin DOMAIN Info(pre, v).hist \/ Info(pre, v).hist[k] # post.vals[v].hist[k]}} : v \in DOMAIN post.vals}
      \* the validator's tokens the increment was divided by are known only to 10^-18 of the asset's total (its share of the
      \* asset is an 18-digit quotient): the increment times that quantum can be claimed in excess once the valuation moves
      dIdx(u) == BSub(post.vals[u[1]].hist[<<u[2], u[3]>>], IF <<u[2], u[3]>> \in DOMAIN Info(pre, u[1]).hist THEN Info(pre, u[1]).hist[<<u[2], u[3]>>] ELSE "0")
      quantum(u) == IF IsPos(dIdx(u)) THEN CeilDiv(BMul(dIdx(u), BMax(pre.assets[u[2]].total, IF u[2] \in DOMAIN post.assets THEN post.assets[u[2]].total ELSE "0")), BMul(ONE, ONE)) ELSE "0"
      inc(rd) == BSum({u \in upd : u[3] = rd /\ u[2] \in DOMAIN pre.assets},
                      LAMBDA u : BAdd(BQuo(BMul("4", BAdd(TruncInt(ValTokens(pre.assets[u[2]], Info(pre, u[1]), u[2])), Get(post.bank.rewards, rd))), ONE), quantum(u)))
      \* a claim multiplies the outstanding index by the position's whole-token balance, which can exceed its exact value by up to
      \* a token (the balance is rounded with +0.01 and truncated) or by the valuation quanta of K2Resolution: once the position
      \* has claimed, that excess has left the pool for good, so the allowance moves from the state-based term into the ghost
      clm == {k \in Claimers(pre, rec) : k \in DOMAIN pre.dels /\ k[2] \in DOMAIN post.vals}
      outAt(k, rd) == LET key == <<k[3], rd>> IN
                        BSub(IF key \in DOMAIN post.vals[k[2]].hist THEN post.vals[k[2]].hist[key] ELSE "0", IF key \in DOMAIN pre.dels[k].hist THEN pre.dels[k].hist[key] ELSE "0")
      realized(rd) == BSum({k \in clm : IsPos(outAt(k, rd))},
                           LAMBDA k : BAdd(CeilDiv(BMul(BMax("1", CeilDiv(TruncInt(ValTokens(pre.assets[k[3]], Info(pre, k[2]), k[3])), ONE)), outAt(k, rd)), ONE),
                                           CeilDiv(BMul(outAt(k, rd), pre.assets[k[3]].total), BMul(ONE, ONE))))
      rdsAll == {u[3] : u \in upd} \cup UNION {{h[2] : h \in {h \in DOMAIN post.vals[k[2]].hist : h[1] = k[3]}} : k \in clm}
      k22 == CoinsAdd(gh.k2, [rd \in {rd \in rdsAll : ~IsZero(BAdd(IF rd \in {u[3] : u \in upd} THEN inc(rd) ELSE "0", realized(rd)))} |->
                                  BAdd(IF rd \in {u[3] : u \in upd} THEN inc(rd) ELSE "0", realized(rd))])
      \* K9: pending rewards of v were withdrawn in this step while v recorded no delegator shares
      strand == {v \in DOMAIN pre.env.vals : HasMod(pre, v) /\ ~IsEmptyMap(Pending(pre, v)) /\ v \in DOMAIN post.env.vals /\ IsEmptyMap(Pending(post, v))
                                             /\ (IsEmptyMap(Info(pre, v).dshares) \/ PoolWeightless(pre, v))
                                             /\ rec.ev \notin {"Accrue", "AccrueFees"}}
      stuck0 == IF rec.ev = "EndBlock" THEN [k \in DOMAIN gh.stuck \ {BondDenom} |-> gh.stuck[k]] ELSE gh.stuck     \* stray staking coins are burned
      stuck2 == FoldSet(LAMBDA v, acc : CoinsAdd(acc, Pending(pre, v)), stuck0, strand)
      \* the clock is due, something is chargeable, and nothing was moved: a dust-only period (by design)
      stall2 == IF rec.ev = "GovParams" /\ rec.res.ok THEN TRUE     \* governance set the clock or the interval itself: any lag is its choice
                ELSE IF rec.ev # "EndBlock" THEN gh.stall
                ELSE LET L == pre.params.last  I == pre.params.interval
                         due == L # -1 /\ I > 0 /\ pre.now > L + I
                     IN  IF ~due THEN (IF post.params.last # -1 /\ I > 0 /\ post.params.last + I >= pre.now THEN FALSE ELSE gh.stall)
                         ELSE IF post.params.last = L /\ (\E a \in DOMAIN pre.assets : Chargeable(pre.assets[a], pre.now))
                                 /\ (\A a \in DOMAIN pre.assets : Chargeable(pre.assets[a], pre.now) =>
                                         BLe(BSub(pre.assets[a].total, TruncInt(TakeRateNew(pre.assets[a], (pre.now - L) \div I))), "0") \/ BLe(TakeRateNew(pre.assets[a], (pre.now - L) \div I), ONE))
                              THEN TRUE
                         ELSE IF post.params.last + I >= pre.now THEN FALSE ELSE gh.stall
  IN  [unb |-> unb2, red |-> red1, stall |-> stall2, dep |-> dep2, slashed |-> slashed2, k2 |-> k22, stuck |-> stuck2,
       ent |-> EntNext(gh, pre, rec, post), taint |-> TaintNext(gh, pre, rec, post), nacc |-> NaccNext(gh, pre, rec, post),
       prevEnd |-> IF rec.ev = "EndBlock" THEN pre.now ELSE gh.prevEnd,
       \* K3: <<validator, asset>> pairs that became zero-valued (delegator shares recorded, no token value) in a step that
       \* conformed to the specification, i.e. in one of the ways the code is known to produce such a validator (a 100 % slash,
       \* redelegation of worthless shares, a withdrawal whose conversion error exceeds what the small positions left behind
       \* are worth); a pair that got there in any other way is not excused
       zeroed |-> LET fresh == IF conforms
                               THEN {x \in (DOMAIN post.env.vals) \X (DOMAIN post.assets) : ZeroValued(post, x[1], x[2]) /\ ~ZeroValued(pre, x[1], x[2])}
                               ELSE {}
                  IN  {x \in gh.zeroed \cup fresh : ZeroValued(post, x[1], x[2])},
       orphans |-> OrphansOf(gh, pre, post),
       eslack |-> EslackNext(gh, pre, rec, post),
       k1 |-> CoinsAdd(gh.k1, k1add),
       unbOff |-> unbOff2,
       \* lock-step (C18): once the re-imported sibling has diverged through a merged redelegation record (K4) it stays diverged
       diverged |-> IF rec.ev = "ForkImport" THEN ""
                    ELSE IF Len(rec.mirror) = 1 /\ MergedAny(gh.red) /\ ObsView(NormState(rec.mirror[1].post)) # ObsView(post) THEN "K4"
                    ELSE gh.diverged]

-----------------------------------------------------------------------------
(* C02 / C07: unbondings *)
UserDelta(pre, post, d, a) == BSub(Get(UserCoins(post, d), a), Get(UserCoins(pre, d), a))
AllUsers(pre, post) == DOMAIN pre.bank.users \cup DOMAIN post.bank.users
AllDenomsOf(pre, post) == UNION {DOMAIN UserCoins(pre, d) \cup DOMAIN UserCoins(post, d) : d \in AllUsers(pre, post)}

\* users received coins of denom a only out of the rewards pool (reward payouts may be in an alliance denom that was
\* recycled through the fee collector), never out of custody
PaidOnlyRewards(pre, post, a) ==
  LET withdrawn == BSum({v \in DOMAIN pre.env.vals : HasMod(pre, v) /\ v \in DOMAIN post.env.vals},
                        LAMBDA v : BSub(Get(Pending(pre, v), a), Get(Pending(post, v), a)))
      paid == BSum(AllUsers(pre, post), LAMBDA d : UserDelta(pre, post, d, a))
  IN  /\ \A d \in AllUsers(pre, post) : ~IsNeg(UserDelta(pre, post, d, a))
      /\ BLe(paid, BAdd(BSub(Get(pre.bank.rewards, a), Get(post.bank.rewards, a)), BMax("0", withdrawn)))

C02_Step(pre, rec, post, gh) ==
  LET e == rec.args
  IN  IF rec.ev = "EndBlock" /\ rec.res.ok THEN
        LET due == {i \in DOMAIN gh.unb : gh.unb[i].due < pre.now}
            payout(d, a) == BSum({i \in due : gh.unb[i].d = d /\ gh.unb[i].a = a}, LAMBDA i : gh.unb[i].amt)
            keep == SelectSeq(gh.unb, LAMBDA x : ~(x.due < pre.now))
        IN  UNION {Check("C02", UserDelta(pre, post, d, a) = payout(d, a),
                         "end-of-block at " \o ToString(pre.now) \o " paid " \o UserDelta(pre, post, d, a) \o " " \o a \o " to " \o d \o
                         " but the matured unbondings amount to " \o payout(d, a)) : d \in AllUsers(pre, post), a \in AllDenomsOf(pre, post)}
            \cup Check("C02", IF gh.unbOff THEN KeyBag(keep) = KeyBag(LedgerOfState(post)) ELSE BagOfSeq(keep) = UnbBagOfState(post),
                       "after end-of-block the unbonding queue differs from the entries that have not matured")
      ELSE IF rec.ev = "Undelegate" /\ rec.res.ok THEN
        Check("C02", LET nw == Append(gh.unb, [d |-> e.d, v |-> e.v, a |-> e.a, amt |-> e.x, due |-> pre.now + pre.env.unbonding])
                     IN  IF gh.unbOff THEN KeyBag(nw) = KeyBag(LedgerOfState(post)) ELSE BagOfSeq(nw) = UnbBagOfState(post),
              "undelegation of " \o e.x \o " " \o e.a \o " did not produce exactly one pending entry of that amount due at t + unbonding period")
        \cup Check("C02", PaidOnlyRewards(pre, post, e.a), "undelegation paid out staked coins immediately")
      \* (an end blocker that fails halts the chain: what it wrote before failing is no chain state; the failure itself is C17's)
      ELSE IF IsSlash(rec) \/ rec.ev = "StakingEndBlock" \/ rec.ev = "EndBlock" THEN {}
      ELSE Check("C02", IF gh.unbOff THEN KeyBag(gh.unb) = KeyBag(LedgerOfState(post)) ELSE BagOfSeq(gh.unb) = UnbBagOfState(post), "pending unbonding entries changed by " \o rec.ev)

C07_Unb_Step(pre, rec, post, gh) ==
  IF ~(SlashValid(rec) /\ ValExists(pre, rec.args.v)) THEN {}
  ELSE
    LET v == rec.args.v  f == SlashFraction(rec)
        want == SlashLedger(gh.unb, v, f, pre.now)
        cut(a) == BSum({i \in DOMAIN gh.unb : gh.unb[i].a = a}, LAMBDA i : BSub(gh.unb[i].amt, want[i].amt))
        denoms == {gh.unb[i].a : i \in DOMAIN gh.unb} \cup DOMAIN pre.bank.fee \cup DOMAIN post.bank.fee
    IN  CheckK("C07", BagOfSeq(want) = UnbBagOfState(post), HookFundsKF(rec, gh, pre),
              "slash of " \o v \o " by " \o f \o ": pending unbondings are not (each entry of that validator reduced once by floor(f*balance), all others untouched)")
        \cup UNION {CheckK("C07", BSub(Get(post.bank.fee, a), Get(pre.bank.fee, a)) = cut(a), HookFundsKF(rec, gh, pre),
                          "slash of " \o v \o ": fee collector received " \o BSub(Get(post.bank.fee, a), Get(pre.bank.fee, a)) \o " " \o a \o
                          " but the pending unbondings of that validator lose " \o cut(a)) : a \in denoms}

-----------------------------------------------------------------------------
(* C06 bonded stake: proportional, targeted, value conserving *)
C06_Step(pre, rec, post, gh) ==
  IF ~(SlashValid(rec) /\ ValExists(pre, rec.args.v)) THEN {}
  ELSE
    LET v == rec.args.v  f == SlashFraction(rec)
        as == DOMAIN Info(pre, v).vshares
        targets == RedDstOut(gh, pre, v)
        S(a) == pre.assets[a].vshares
        sv(a) == Get(Info(pre, v).vshares, a)
        denom(a) == BSub(BMul(S(a), ONE), BMul(f, sv(a)))            \* (S - f*s) scaled by 10^18
        g(a) == Rat(BMul(S(a), ONE), denom(a))
        keepf == Rat(BSub(ONE, f), ONE)
        tol(k) == TolMax(pre, post, k[2], k[3], "0")
    IN  UNION {Check("C06", post.assets[a].total = pre.assets[a].total, "slash changed the staked total of " \o a) : a \in DOMAIN pre.assets \cap DOMAIN post.assets}
        \cup UNION {
          IF k[3] \notin as \/ ~IsPos(denom(k[3])) \/ k \in targets \/ k \notin DOMAIN post.dels THEN {}
          ELSE IF k[2] = v
               THEN Check("C06", Within(PosValueRat(post, k), RMul(RMul(keepf, g(k[3])), PosValueRat(pre, k)), tol(k)),
                          "position " \o ToString(k) \o " on the slashed validator is not worth (1-f)*g times its previous value")
               ELSE Check("C06", RLe(RSub(RMul(g(k[3]), PosValueRat(pre, k)), RInt(tol(k))), PosValueRat(post, k))
                                 /\ ((\A t \in targets : t[2] # k[2] \/ t[3] # k[3]) => Within(PosValueRat(post, k), RMul(g(k[3]), PosValueRat(pre, k)), tol(k))),
                          "position " \o ToString(k) \o " on another validator is not scaled by the common factor g")
          : k \in DOMAIN pre.dels}
        \* nothing is destroyed: the positions of an asset are together worth what they were worth before (what a redelegation
        \* destination loses goes to the other positions on its validator).  K8: if nobody else is delegated to that validator the
        \* value stays behind on it without an owner
        \cup UNION {
          LET ks == {k \in DOMAIN pre.dels \cup DOMAIN post.dels : k[3] = a}
              sumPre == RSumSet({k \in ks : k \in DOMAIN pre.dels}, LAMBDA k : PosValueRat(pre, k))
              sumPost == RSumSet({k \in ks : k \in DOMAIN post.dels}, LAMBDA k : PosValueRat(post, k))
              slack == BAdd("2", BSum(ks, LAMBDA k : TolMax(pre, post, k[2], a, "0")))
              \* (a redelegation destination nobody else is delegated to, or any validator that carries ownerless dust shares of
              \* the asset: the redistribution of a slash flows to those shares as to everyone else's)
              orphaning == (\E t \in targets : t[3] = a /\ (OrphanedOnValidator(post, t[2], a) \/ OrphanedOnValidator(pre, t[2], a)))
                           \/ \E w \in DOMAIN post.vals : OrphanedOnValidator(post, w, a)
          IN  IF OrphanedTotal(pre, a) \/ OrphanedTotal(post, a) \/ a \notin DOMAIN post.assets THEN {}
              \* K13: the shares of a removed validator still count in the asset's share total and take their part of the redistribution
              ELSE CheckK("C06", RLe(RSub(sumPre, RInt(slack)), sumPost), IF orphaning THEN "K8" ELSE IF IsPos(OrphanShares(gh, a)) THEN "K13" ELSE "",
                          "slash of " \o v \o ": the positions of " \o a \o " were worth " \o RFloor(sumPre) \o " before and " \o RFloor(sumPost) \o " after: value was destroyed, not redistributed")
          : a \in as \cup {t[3] : t \in targets}}

-----------------------------------------------------------------------------
(* C07 redelegations: destination positions of pending redelegations out of the slashed validator *)
\* Expected share removal, entry by entry in the order of the by-source index (time, denom, destination, delegator), each
\* entry priced at the destination's share price at that moment: tokens of the validator (after the bonded slash) divided by
\* its delegator shares still recorded.  sh: position -> shares left (rational), ds: <<validator, denom>> -> delegator shares
\* left (rational).  Exact rationals; nothing of the code's rounding is assumed.
\* Redelegations with the same delegator, denom, source, destination and completion time are one pending entry (their
\* amounts add up), as in the module's own record.
RECURSIVE ExpectRedSlash(_, _, _, _, _)
ExpectRedSlash(post, order, f, sh, ds) ==      \* order: sequence of [d, a, dst, amt]
  IF order = <<>> THEN sh
  ELSE
    LET x == Head(order)
        k == <<x.d, x.dst, x.a>>
        vk == <<x.dst, x.a>>
    IN  IF k \notin DOMAIN sh \/ x.a \notin DOMAIN post.assets THEN ExpectRedSlash(post, Tail(order), f, sh, ds)
        ELSE
          LET vt == ValTokRat(post, x.dst, x.a)
              want == RInt(TruncInt(DMulInt(f, x.amt)))
              byPrice == IF IsZero(vt[1]) THEN sh[k] ELSE RMul(want, <<BMul(ds[vk][1], vt[2]), BMul(ds[vk][2], vt[1])>>)
              take == IF RLt(sh[k], byPrice) THEN sh[k] ELSE byPrice
          IN  ExpectRedSlash(post, Tail(order), f, [sh EXCEPT ![k] = RSub(@, take)], [ds EXCEPT ![vk] = RSub(@, take)])

MergedRecord(gh, k) ==      \* K4: two pending redelegations of one delegator into one destination, due at the same time, from different sources
  \E i, j \in DOMAIN gh.red : gh.red[i].d = k[1] /\ gh.red[i].dst = k[2] /\ gh.red[i].a = k[3] /\ gh.red[j].d = k[1] /\ gh.red[j].dst = k[2]
                              /\ gh.red[j].a = k[3] /\ gh.red[i].due = gh.red[j].due /\ gh.red[i].src # gh.red[j].src

C07_Red_Step(pre, rec, post, gh) ==
  IF ~(SlashValid(rec) /\ ValExists(pre, rec.args.v)) THEN {}
  ELSE
    LET v == rec.args.v  f == SlashFraction(rec)
        hit == {i \in DOMAIN gh.red : gh.red[i].src = v /\ gh.red[i].due >= pre.now}
        keys == {<<gh.red[i].due, gh.red[i].a, gh.red[i].dst, gh.red[i].d>> : i \in hit}
        korder == SortBy(keys, LAMBDA q : <<q[1], DenIdx(q[2]), ValIdx(q[3]), DelIdx(q[4])>>)
        order == [n \in DOMAIN korder |->
                    [d |-> korder[n][4], a |-> korder[n][2], dst |-> korder[n][3],
                     amt |-> BSum({i \in hit : <<gh.red[i].due, gh.red[i].a, gh.red[i].dst, gh.red[i].d>> = korder[n]}, LAMBDA i : gh.red[i].amt)]]
        targets == {<<gh.red[i].d, gh.red[i].dst, gh.red[i].a>> : i \in hit}
        others == {k \in DOMAIN pre.dels : k \notin targets}
        live == {k \in targets : k \in DOMAIN pre.dels /\ k[3] \in DOMAIN pre.assets /\ k[3] \in DOMAIN post.assets}    \* (not: records left behind in a deleted asset)
        sh0 == [k \in live |-> Rat(pre.dels[k].shares, "1")]
        ds0 == [vk \in {<<k[2], k[3]>> : k \in live} |-> Rat(Get(Info(pre, vk[1]).dshares, vk[2]), "1")]
        expect == ExpectRedSlash(post, order, f, sh0, ds0)
        got(k) == IF k \in DOMAIN post.dels THEN Rat(post.dels[k].shares, "1") ELSE RZero
        \* difference in shares, valued in tokens at the destination's price before the removal
        errTok(k) == LET d == RAbs(RSub(got(k), expect[k]))
                         dsPre == Get(Info(pre, k[2]).dshares, k[3])
                     IN  IF IsZero(dsPre) \/ k[3] \notin DOMAIN post.assets THEN RZero ELSE RMul(<<d[1], BMul(d[2], dsPre)>>, ValTokRat(post, k[2], k[3]))
        want(k) == BSum({n \in DOMAIN order : <<order[n].d, order[n].dst, order[n].a>> = k}, LAMBDA n : TruncInt(DMulInt(f, order[n].amt)))
        tol(k) == BMul(BFromInt(Cardinality(hit)), TolMax(pre, post, k[2], k[3], want(k)))
    IN  UNION {Check("C07", k \notin DOMAIN post.dels \/ post.dels[k].shares = pre.dels[k].shares,
                     "slash of " \o v \o " changed the shares of position " \o ToString(k) \o ", which is not the destination of a pending redelegation out of it") : k \in others}
        \cup UNION {CheckK("C07", RLe(errTok(k), RInt(tol(k))),
                           \* K3b: with the asset's share total at zero the destination's stake has no price (the code values every
                           \* position at the whole staked total), so "shares worth floor(f*redelegated)" is whatever that yields
                           IF MergedRecord(gh, k) THEN "K4" ELSE IF OrphanedTotal(pre, k[3]) THEN "K3b"
                           \* K8: the callback converts the tokens to take into shares with the same 1:1 shortcut / 0.01-share margin
                           ELSE IF OrphanedOnValidator(pre, k[2], k[3]) \/ PriceInflated(pre, k[2], k[3]) THEN "K8" ELSE HookFundsKF(rec, gh, pre),
                           "slash of " \o v \o " by " \o f \o ": destination position " \o ToString(k) \o " did not lose the shares worth floor(f*redelegated) = " \o want(k) \o
                           " (capped at what it holds) per pending entry") : k \in live}

-----------------------------------------------------------------------------
(* C08 slash callback is total *)
C08_Step(pre, rec, post, gh) ==
  IF ~(SlashValid(rec) /\ ValExists(pre, rec.args.v)) THEN {}
  ELSE CheckK("C08", rec.ev # "SlashHook" \/ (rec.res.ok /\ ~rec.res.panic),
              \* the callback claims rewards for the destination positions of pending redelegations: a short pool (K1, K2) makes it fail
              HookFundsKF(rec, gh, pre),
              "slash callback failed: " \o rec.res.err)
       \cup Check("C08", post.flag, "slash callback did not schedule a rebalance")
       \* ... having applied the slash to all pending unbondings and redelegations of the validator: a callback that returns
       \* without error but leaves some of them untouched is not total either (the details are C07's)
       \cup (LET inc == {x \in C07_Unb_Step(pre, rec, post, gh) \cup C07_Red_Step(pre, rec, post, gh) : x.p = "C07"}
                 kfs == {x.kf : x \in inc}
             IN  IF inc = {} \/ ~rec.res.ok THEN {}
                 ELSE CheckK("C08", FALSE, IF "" \in kfs THEN "" ELSE CHOOSE k \in kfs : TRUE,
                             "slash callback returned without error but did not apply the slash to every pending unbonding / redelegation of the validator"))

-----------------------------------------------------------------------------
(* C04 position isolation *)
C04_Step(pre, rec, post) ==
  LET e == rec.args
      a == e.a
      actorKeys == CASE rec.ev = "Delegate" -> {<<e.d, e.v, a>>}
                     [] rec.ev = "Undelegate" -> {<<e.d, e.v, a>>}
                     [] rec.ev = "Redelegate" -> {<<e.d, e.src, a>>, <<e.d, e.dst, a>>}
                     [] OTHER -> {}
      delta(k) == CASE rec.ev = "Delegate" -> e.x
                    [] rec.ev = "Undelegate" -> BNeg(e.x)
                    [] rec.ev = "Redelegate" -> IF k[2] = e.src THEN BNeg(e.x) ELSE e.x
                    [] OTHER -> "0"
      ks == {k \in DOMAIN pre.dels \cup DOMAIN post.dels : k[3] = a}
      tol(k) == TolMax(pre, post, k[2], a, e.x)
  IN  IF ~rec.res.ok \/ rec.ev \notin {"Delegate", "Undelegate", "Redelegate", "Claim"} THEN {}
      ELSE IF rec.ev = "Claim"
      THEN Check("C04", [k \in DOMAIN pre.dels |-> pre.dels[k].shares] = [k \in DOMAIN post.dels |-> post.dels[k].shares]
                        /\ [v \in DOMAIN pre.vals |-> <<pre.vals[v].vshares, pre.vals[v].dshares>>] = [v \in DOMAIN pre.vals |-> <<post.vals[v].vshares, post.vals[v].dshares>>]
                        /\ [x \in DOMAIN pre.assets |-> <<pre.assets[x].total, pre.assets[x].vshares>>] = [x \in DOMAIN post.assets |-> <<post.assets[x].total, post.assets[x].vshares>>],
                 "a reward claim changed a staked value")
      ELSE IF a \notin DOMAIN pre.assets \/ a \notin DOMAIN post.assets THEN {}
      ELSE LET kf == IF OrphanedTotal(pre, a) \/ OrphanedTotal(post, a) THEN "K3b"
                     ELSE IF \E k \in actorKeys : OrphanedOnValidator(pre, k[2], a) \/ (delta(k) # e.x /\ PriceInflated(pre, k[2], a)) THEN "K8"
                     ELSE "" IN
           UNION {
             IF k \in actorKeys
             THEN CheckK("C04", Within(RSub(PosValueOr0(post, k), PosValueOr0(pre, k)), RInt(delta(k)), tol(k)), kf,
                        rec.ev \o " of " \o e.x \o ": the actor's position " \o ToString(k) \o " did not change by the requested amount")
             ELSE CheckK("C04", Within(PosValueOr0(post, k), PosValueOr0(pre, k), tol(k)), kf,
                        rec.ev \o " of " \o e.x \o " by " \o e.d \o " changed the value of another position " \o ToString(k))
           : k \in ks}

C04_State(s) ==
  UNION {LET ks == PositionsOf(s, a)
             sum == BSum({k \in ks : BIsNum(s.bals[k])}, LAMBDA k : s.bals[k])
             \* one unit per position, plus the pool-relative resolution of the 18-digit quotients for large stakes
             slack == BSum(ks, LAMBDA k : TolTok(s, k[2], a, "0"))
         IN  CheckK("C04", BLe(sum, BAdd(s.assets[a].total, slack)),
                   \* K3b: every validator holding shares of the asset was slashed by 100 %: the share total is zero while
                   \* tokens remain, and the conversion then values every position at the whole staked total
                   IF OrphanedTotal(s, a) THEN "K3b" ELSE "",
                   "reported values of the positions in " \o a \o " sum to " \o sum \o ", more than the staked total " \o s.assets[a].total \o " plus one unit per position")
         : a \in DOMAIN s.assets}

-----------------------------------------------------------------------------
(* C05 / C12 / C20-balance: probes evaluated on discarded branches of the recorded state *)
ProbeSet(rec) == {rec.probes[i] : i \in DOMAIN rec.probes}
\* the rewards pool is short of what positions can claim (measured by the claim probes of this state)
ClaimProbes(rec) == {p \in ProbeSet(rec) : p.kind = "claim" /\ p.ok}
Claimable(rec, rd) == BSum(ClaimProbes(rec), LAMBDA p : BSum({i \in DOMAIN p.paid : p.paid[i].a = rd}, LAMBDA i : p.paid[i].x))
PendingIn(s, rd) == BSum({v \in DOMAIN s.env.vals : HasMod(s, v)}, LAMBDA v : Get(Pending(s, v), rd))
Shortfall(s, rec, rd) == BSub(Claimable(rec, rd), BAdd(Get(s.bank.rewards, rd), PendingIn(s, rd)))
\* for the attribution to a known finding the claimable amounts are recomputed with the specification (a claim probe that
\* fails for lack of funds reports no amount): what every position would be paid after its validator has been settled
ModelClaimable(s, rd) ==
  BSum({k \in DOMAIN s.dels : k[3] \in DOMAIN s.assets /\ Started(s.assets[k[3]], s.now) /\ k[2] \in DOMAIN s.vals /\ ~CVRPanics(s, k[2])},
       LAMBDA k : Get(CalcRewards(CVR(s, k[2]), k).coins, rd))
ModelShortfall(s, rd) == BSub(ModelClaimable(s, rd), BAdd(Get(s.bank.rewards, rd), PendingIn(s, rd)))
\* which listed finding explains a short pool in this state: K1 after a slash, K2 within the index-rounding budget
\* the claim probes index the rewards still pending in x/distribution on their branch: the same rounding allowance for those
K2Prospective(s, rd) ==
  BSum({v \in DOMAIN s.env.vals : HasMod(s, v) /\ IsPos(Get(Pending(s, v), rd))},
       LAMBDA v : BAdd(BSum(PoolEligible(s, Info(s, v)),
                            LAMBDA a : BQuo(BMul("4", BAdd(TruncInt(ValTokens(s.assets[a], Info(s, v), a)), Get(Pending(s, v), rd))), ONE)),
                       \* one whole token's worth of the pending rewards per position on v (balances are whole tokens, rounded with +0.01)
                       BSum({k \in DOMAIN s.dels : k[2] = v /\ k[3] \in PoolEligible(s, Info(s, v))},
                            LAMBDA k : CeilDiv(Get(Pending(s, v), rd), BMax("1", TruncInt(ValTokens(s.assets[k[3]], Info(s, v), k[3])))))))
\* a position's whole-token balance is known only to 10^-18 of the validator's tokens (two 18-digit quotients): next to a very
\* large position a small one is over- or under-valued by up to that much, and a claim multiplies it by the outstanding index
K2Resolution(s, rd) ==
  BSum({k \in DOMAIN s.dels : k[3] \in DOMAIN s.assets /\ k[2] \in DOMAIN s.vals},
       LAMBDA k : LET vh == s.vals[k[2]].hist  key == <<k[3], rd>>
                      out == IF key \in DOMAIN vh THEN BSub(vh[key], IF key \in DOMAIN s.dels[k].hist THEN s.dels[k].hist[key] ELSE "0") ELSE "0"
                      q == BMax("1", CeilDiv(TruncInt(ValTokens(s.assets[k[3]], s.vals[k[2]], k[3])), ONE))
                      \* and the validator's own tokens are known only to 10^-18 of the asset's total (its share of the asset is an
                      \* 18-digit quotient): a validator holding a few 10^-18 of an asset is valued in steps of total/10^18 tokens,
                      \* and the value at the time of the claim need not be the value the reward was indexed with
                  IN  IF IsPos(out) THEN BAdd(CeilDiv(BMul(q, out), ONE), CeilDiv(BMul(out, s.assets[k[3]].total), BMul(ONE, ONE))) ELSE "0")
PoolExplained(s, rec, gh) ==
  LET rds == DOMAIN s.bank.rewards \cup DOMAIN gh.k2 \cup DOMAIN gh.k1 \cup UNION {{p.paid[i].a : i \in DOMAIN p.paid} : p \in ClaimProbes(rec)}
             \cup UNION {{k[2] : k \in DOMAIN s.vals[v].hist} : v \in DOMAIN s.vals} \cup UNION {DOMAIN Pending(s, v) : v \in DOMAIN s.env.vals}
      short(rd) == BMax(Shortfall(s, rec, rd), ModelShortfall(s, rd))
      b2(rd) == BAdd(BAdd(BAdd(Get(gh.k2, rd), K2Prospective(s, rd)), K2Resolution(s, rd)),
                     \* ill-conditioned weight splits (a validator holding 10^-9 of an asset has its staked reward weight known to
                     \* 10^-9 relative only): one part in 10^9 of what is at stake
                     BQuo(BAdd(BAdd(Get(s.bank.rewards, rd), PendingIn(s, rd)), ModelClaimable(s, rd)), "1000000000"))
  IN  IF \A rd \in rds : BLe(short(rd), b2(rd)) THEN "K2"
      \* K1: what the slashes on record can have added to the claims (gh.k1), on top of the rounding budget
      ELSE IF (gh.slashed \/ ~IsEmptyMap(gh.k1)) /\ \A rd \in rds : BLe(short(rd), BAdd(b2(rd), Get(gh.k1, rd))) THEN "K1"
      ELSE ""
ProbeKF(s, rec, gh, p) ==
  IF p.errc = "funds" THEN PoolExplained(s, rec, gh)
  ELSE IF p.errc = "divzero" /\ p.kind = "delegate" /\ ZeroValued(s, p.v, p.a) /\ <<p.v, p.a>> \in gh.zeroed THEN "K3"
  ELSE IF p.errc = "novalidator" /\ p.kind \in {"claim", "exit"} /\ p.v \in DOMAIN gh.orphans THEN "K13"
  ELSE ""
C05_Probes(s, rec, gh) ==
  UNION {IF p.kind = "delegate" THEN CheckK("C05", p.ok, ProbeKF(s, rec, gh, p), "a user cannot delegate " \o p.x \o " " \o p.a \o " to " \o p.v \o ": " \o p.err)
         ELSE IF p.kind \in {"claim", "exit"} /\ p.a \notin DOMAIN s.assets THEN {}     \* record left behind in a deleted asset: nothing is reported for it
         ELSE IF p.kind = "claim" THEN CheckK("C05", p.ok, ProbeKF(s, rec, gh, p), "delegator " \o p.d \o " cannot claim rewards of " \o p.v \o "/" \o p.a \o ": " \o p.err)
         ELSE IF p.kind = "exit" THEN CheckK("C05", p.ok, ProbeKF(s, rec, gh, p), "delegator " \o p.d \o " cannot undelegate the reported balance " \o p.x \o " " \o p.a \o " from " \o p.v \o ": " \o p.err)
         ELSE {} : p \in ProbeSet(rec)}

C12_Probes(s, rec, gh) ==
  LET rds == UNION {{p.paid[i].a : i \in DOMAIN p.paid} : p \in ClaimProbes(rec)}
      hasAll == \E p \in ProbeSet(rec) : p.kind = "claimAll"
      kf == PoolExplained(s, rec, gh)
  IN  UNION {CheckK("C12", p.ok \/ p.errc = "noasset", IF p.errc = "funds" THEN kf ELSE IF p.errc = "novalidator" /\ DOMAIN gh.orphans # {} THEN "K13" ELSE "", "claiming every position in order '" \o p.order \o "' fails: " \o p.err) : p \in {p \in ProbeSet(rec) : p.kind = "claimAll"}}
      \cup (IF hasAll THEN UNION {CheckK("C12", ~IsPos(Shortfall(s, rec, rd)), kf,
                         "positions can claim " \o Claimable(rec, rd) \o " " \o rd \o " in total but the rewards pool holds " \o Get(s.bank.rewards, rd) \o
                         " and the distribution module owes it " \o PendingIn(s, rd)) : rd \in rds}
            ELSE {})

-----------------------------------------------------------------------------
(* C09 take rate *)
\* rigorous enclosure of floor(T * (1-r)^n): the SDK's Power rounds each product to 18 digits (error <= 1/2 ulp per
\* product, at most 2*log2(n)+1 products, each factor < 1), so |mult - (1-r)^n| <= (2*bits(n)+1) * 10^-18
Bits(n) == IF n <= 1 THEN 1 ELSE IF n <= 3 THEN 2 ELSE IF n <= 7 THEN 3 ELSE IF n <= 15 THEN 4 ELSE IF n <= 31 THEN 5 ELSE IF n <= 1023 THEN 10 ELSE 31
RECURSIVE RPow(_, _)
RPow(r, n) == IF n = 0 THEN RInt("1") ELSE RMul(r, RPow(r, n - 1))
C09_Step(pre, rec, post, gh) ==
  IF rec.ev # "EndBlock" \/ ~rec.res.ok THEN {}
  ELSE
    LET L == pre.params.last  I == pre.params.interval
        due == L # -1 /\ I > 0 /\ pre.now > L + I
        n == IF L # -1 /\ I > 0 /\ pre.now >= L + I THEN (pre.now - L) \div I ELSE 0
        \* assets as end-of-block sees them (after InitAssets, which does not touch totals)
        charged == {a \in DOMAIN pre.assets \cap DOMAIN post.assets : post.assets[a].total # pre.assets[a].total}
        feeDelta(a) == BSub(Get(post.bank.fee, a), Get(pre.bank.fee, a))
        custDelta(a) == BSub(Get(pre.bank.custody, a), Get(post.bank.custody, a))
        slack == BFromInt(2 * Bits(n) + 1)
        exact(a) == RMul(RInt(pre.assets[a].total), IF n <= 64 THEN RPow(Rat(BSub(ONE, pre.assets[a].take), ONE), n) ELSE Rat(DPow(BSub(ONE, pre.assets[a].take), n), ONE))
        errT(a) == BAdd("1", CeilDiv(BMul(pre.assets[a].total, slack), ONE))
    IN  UNION {LET x == pre.assets[a] IN
                 \* (at now = clock + interval exactly one whole interval has elapsed: the code waits one more block, charging is not wrong)
                 Check("C09", L # -1 /\ I > 0 /\ pre.now >= L + I, "asset " \o a \o " was charged although no whole claim interval has elapsed since the take-rate clock")
                 \cup Check("C09", IsPos(x.take) /\ Started(x, pre.now), "asset " \o a \o " was charged at rate zero or before its reward start time")
                 \cup Check("C09", IsPos(post.assets[a].total), "take rate drove the total of " \o a \o " to zero")
                 \cup (IF n > 0 THEN Check("C09", Within(RInt(post.assets[a].total), exact(a), errT(a)) /\ BLe(post.assets[a].total, pre.assets[a].total),
                                         "asset " \o a \o ": total went from " \o x.total \o " to " \o post.assets[a].total \o ", not floor(T*(1-r)^n) for n = " \o ToString(n)) ELSE {})
               : a \in charged}
        \cup UNION {Check("C09", feeDelta(a) = (IF a \in charged THEN BSub(pre.assets[a].total, post.assets[a].total) ELSE "0"),
                          "end-of-block moved " \o feeDelta(a) \o " " \o a \o " to the fee collector but the staked total fell by " \o
                          (IF a \in charged THEN BSub(pre.assets[a].total, post.assets[a].total) ELSE "0")) : a \in (DOMAIN pre.assets \cup DOMAIN pre.bank.fee \cup DOMAIN post.bank.fee) \ {BondDenom}}
        \cup (IF charged # {} /\ n > 0
              THEN Check("C09", post.params.last = L + n * I /\ post.params.last <= pre.now,
                         "take-rate clock moved from " \o ToString(L) \o " to " \o ToString(post.params.last) \o ", not by n = " \o ToString(n) \o " intervals of " \o ToString(I))
              ELSE Check("C09", post.params.last \in {L, pre.now}, "take-rate clock moved although nothing was charged"))
        \cup UNION {Check("C09", [k \in PositionsOf(pre, a) |-> pre.dels[k].shares] = [k \in PositionsOf(post, a) |-> post.dels[k].shares]
                                 /\ post.assets[a].vshares = pre.assets[a].vshares,
                          "a take-rate deduction changed share records of " \o a) : a \in charged}
        \* never retroactive.  K5: the clock can only advance when coins are moved at an end-of-block, so it lags behind after a
        \* dust-only period (gh.stall) and across a block gap of several intervals; a lag without either cause is not explained
        \* (absent a dust stall the clock is never more than one interval behind the PREVIOUS end-of-block: whatever lag there is
        \* now then comes from the block gap)
        \cup (LET k5 == IF gh.stall \/ gh.prevEnd = -1 \/ L + I >= gh.prevEnd THEN "K5" ELSE ""
              IN  UNION {CheckK("C09", ~(due /\ pre.assets[a].start >= L + I), k5,
                                "asset " \o a \o " (reward start " \o ToString(pre.assets[a].start) \o ") was charged for " \o ToString(n) \o
                                " intervals counted from " \o ToString(L) \o ": at least one whole interval before its reward start time") : a \in charged}
                  \cup UNION {IF gh.dep[i].k[3] \in charged /\ due /\ gh.dep[i].k \in DOMAIN pre.dels
                              THEN CheckK("C09", (gh.dep[i].t - L) \div I < 2, k5,
                                          "stake deposited into " \o ToString(gh.dep[i].k) \o " at " \o ToString(gh.dep[i].t) \o " was charged for " \o ToString(n) \o
                                          " intervals counted from " \o ToString(L) \o ": intervals that had elapsed before it was deposited")
                              ELSE {} : i \in DOMAIN gh.dep})
        \* must charge when it is due: a started asset with positive rate whose would-be total exceeds one unit
        \cup UNION {LET x == pre.assets[a] IN
                      IF due /\ IsPos(x.total) /\ IsPos(x.take) /\ Started(x, pre.now) /\ RLt(RInt(BAdd("2", errT(a))), exact(a)) /\ a \in DOMAIN post.assets
                         /\ ~BLe(BSub(x.total, "1"), RFloor(exact(a)))
                      THEN Check("C09", a \in charged, "asset " \o a \o " was due for a take-rate deduction of " \o ToString(n) \o " intervals but was not charged")
                      ELSE {} : a \in DOMAIN pre.assets}

-----------------------------------------------------------------------------
(* C14 reward weight decay *)
C14_Step(pre, rec, post) ==
  IF rec.ev # "EndBlock" \/ ~rec.res.ok THEN {}
  ELSE UNION {
    LET x == pre.assets[a]  y == post.assets[a]
        due == DecayDue(x, pre.now)
        n == IF due THEN (pre.now - x.lastChg) \div x.chgInt ELSE 0
        \* rigorous enclosure of clamp(w * rate^n): relative error of the rounded power <= (2*bits(n)+2) ulp of a value <= max(1, rate^n) * w
        rp == IF n <= 64 THEN RPow(Rat(x.rate, ONE), n) ELSE Rat(DPow(x.rate, n), ONE)
        raw == RMul(Rat(x.weight, "1"), rp)                      \* in raw Dec units
        slack == BMul(BFromInt(2 * Bits(n) + 3), BMax("1", BAdd("1", RCeil(RMul(rp, Rat(x.weight, ONE))))))
        lo == Clamp(BSub(RFloor(raw), slack), x.wmin, x.wmax)
        hi == Clamp(BAdd(RCeil(raw), slack), x.wmin, x.wmax)
    IN  IF due
        THEN Check("C14", BLe(lo, y.weight) /\ BLe(y.weight, hi),
                   "asset " \o a \o ": weight went from " \o x.weight \o " to " \o y.weight \o ", not clamp(w*rate^n) for n = " \o ToString(n))
             \cup Check("C14", y.lastChg = x.lastChg + n * x.chgInt /\ y.lastChg <= pre.now,
                        "asset " \o a \o ": decay clock moved from " \o ToString(x.lastChg) \o " to " \o ToString(y.lastChg) \o ", not by n = " \o ToString(n) \o " intervals")
        ELSE Check("C14", y.weight = x.weight /\ y.lastChg = x.lastChg, "asset " \o a \o ": weight or decay clock changed although no change interval has elapsed")
    : a \in DOMAIN pre.assets \cap DOMAIN post.assets}

\* a weight change (decay or governance) settles every validator at the old weight and leaves a snapshot
WeightChanged(pre, post) == {a \in DOMAIN pre.assets \cap DOMAIN post.assets : pre.assets[a].weight # post.assets[a].weight}
HistClose(h1, h2) == DOMAIN h1 = DOMAIN h2 /\ \A k \in DOMAIN h1 : BLe(BAbs(BSub(h1[k], h2[k])), "2")
C14_Settle(pre, rec, post) ==
  IF ~(rec.ev \in {"EndBlock", "GovUpdate"} /\ rec.res.ok) \/ WeightChanged(pre, post) = {} THEN {}
  ELSE
    LET mid == BeforeDecay(pre, rec)
    IN  UNION {UNION {
         Check("C14", <<a, v, pre.height>> \in DOMAIN post.snaps /\ post.snaps[<<a, v, pre.height>>].prevW = pre.assets[a].weight,
               "weight of " \o a \o " changed without a snapshot of the previous weight for validator " \o v)
         \cup Check("C14", ~HasMod(pre, v) \/ IsEmptyMap(Pending(pre, v)) \/ IsEmptyMap(Pending(post, v)),
               "weight of " \o a \o " changed while rewards for " \o v \o " were pending in the distribution module, and they were not settled")
         \* the pending rewards are indexed with the weights in force BEFORE the change (the rebalance that follows may settle
         \* a validator again, but nothing is pending any more by then)
         \cup (IF HasMod(pre, v) /\ ~IsEmptyMap(Pending(pre, v)) /\ ~CVRPanics(mid, v) /\ v \in DOMAIN mid.vals
               THEN Check("C14", HistClose(Info(post, v).hist, CVR(mid, v).vals[v].hist),
                          "weight of " \o a \o " changed: the rewards pending for " \o v \o " were not indexed at the previous weights")
               ELSE {})
         : v \in DOMAIN pre.vals \cap DOMAIN post.vals} : a \in WeightChanged(pre, post)}

-----------------------------------------------------------------------------
(* C15 redelegation step *)
C15_Step(pre, rec, post, gh) ==
  LET e == rec.args IN
  IF rec.ev = "Redelegate" /\ rec.res.ok THEN
    LET t == pre.now + pre.env.unbonding
        rk == <<e.d, e.a, e.dst, t>>
        before == IF rk \in DOMAIN pre.redRec THEN pre.redRec[rk].bal ELSE "0"
    IN  Check("C15", post.assets[e.a].total = pre.assets[e.a].total /\ Get(post.bank.custody, e.a) = Get(pre.bank.custody, e.a),
              "redelegation changed the staked total or custody")
        \cup Check("C15", PaidOnlyRewards(pre, post, e.a), "redelegation paid out staked coins")
        \cup Check("C15", rk \in DOMAIN post.redRec /\ post.redRec[rk].bal = BAdd(before, e.x)
                          /\ <<e.src, t, e.a, e.dst, e.d>> \in post.redIdx
                          /\ t \in DOMAIN post.redQ /\ (\E j \in DOMAIN post.redQ[t] : post.redQ[t][j] = [d |-> e.d, src |-> e.src, dst |-> e.dst, a |-> e.a, bal |-> e.x]),
                  "redelegation did not record a pending entry (record, by-source index, time queue) for the unbonding period")
        \cup Check("C15", ~(\E i \in DOMAIN gh.red : gh.red[i].d = e.d /\ gh.red[i].a = e.a /\ gh.red[i].dst = e.src /\ gh.red[i].due >= pre.now),
                  "redelegation out of " \o e.src \o " succeeded while a redelegation of the same delegator and asset into it is pending")
  ELSE IF rec.ev = "EndBlock" /\ rec.res.ok THEN
    LET gone == {i \in DOMAIN gh.red : gh.red[i].due < pre.now}
        stay == {i \in DOMAIN gh.red : ~(gh.red[i].due < pre.now)}
    IN  UNION {Check("C15", <<gh.red[i].d, gh.red[i].a, gh.red[i].dst, gh.red[i].due>> \notin DOMAIN post.redRec
                            /\ <<gh.red[i].src, gh.red[i].due, gh.red[i].a, gh.red[i].dst, gh.red[i].d>> \notin post.redIdx
                            /\ gh.red[i].due \notin DOMAIN post.redQ,
                     "matured redelegation entry (due " \o ToString(gh.red[i].due) \o ") survived the end-of-block at " \o ToString(pre.now)) : i \in gone}
        \cup UNION {CheckK("C15", <<gh.red[i].d, gh.red[i].a, gh.red[i].dst, gh.red[i].due>> \in DOMAIN post.redRec
                                 /\ <<gh.red[i].src, gh.red[i].due, gh.red[i].a, gh.red[i].dst, gh.red[i].d>> \in post.redIdx,
                     \* K4: a merged record keeps one source; after a re-import the by-source key of the other source is gone
                     IF MergedRecord(gh, <<gh.red[i].d, gh.red[i].dst, gh.red[i].a>>) THEN "K4" ELSE "",
                     "pending redelegation entry (due " \o ToString(gh.red[i].due) \o ") disappeared at the end-of-block at " \o ToString(pre.now)) : i \in stay}
  ELSE {}

\* guard probes: redelegating out of B is refused exactly while an entry into B is pending
C15_Probes(s, rec, gh) ==
  UNION {IF p.kind # "redelegate" THEN {}
         ELSE LET blocked == \E i \in DOMAIN gh.red : gh.red[i].d = p.d /\ gh.red[i].a = p.a /\ gh.red[i].dst = p.v /\ gh.red[i].due >= s.now
                  \* swept = the entry has been removed by an end-of-block (strictly after maturity)
                  pendingRec == \E k \in DOMAIN s.redRec : k[1] = p.d /\ k[2] = p.a /\ k[3] = p.v
              IN  Check("C15", blocked => ~p.ok, "delegator " \o p.d \o " could redelegate " \o p.a \o " out of " \o p.v \o " while an entry into it is pending")
                  \cup Check("C15", ~pendingRec /\ ~p.ok => p.errc # "transitive",
                             "onward redelegation out of " \o p.v \o " is still blocked although no pending entry into it exists")
         : p \in ProbeSet(rec)}

-----------------------------------------------------------------------------
(* C16 governance gate *)
GovEvents == {"GovCreate", "GovUpdate", "GovDelete", "GovParams"}
C16_Step(pre, rec, post) ==
  LET e == rec.args IN
  IF rec.ev \notin GovEvents THEN {}
  ELSE Check("C16", rec.res.ok => (e.legacy \/ e.signer = "authority"), rec.ev \o " succeeded for a signer that is not the configured authority")
       \cup Check("C16", ~rec.res.ok => StoreView(pre) = StoreView(post), "a rejected " \o rec.ev \o " changed module state")
       \cup (IF rec.ev = "GovUpdate" /\ rec.res.ok
             THEN Check("C16", DOMAIN post.assets = DOMAIN pre.assets
                               /\ \A a \in DOMAIN pre.assets : post.assets[a].total = pre.assets[a].total /\ post.assets[a].vshares = pre.assets[a].vshares /\ post.assets[a].start = pre.assets[a].start,
                        "an update altered a staked total, share total, denom or reward start time")
             ELSE {})
       \cup (IF rec.ev = "GovDelete" /\ rec.res.ok
             THEN Check("C16", e.a \in DOMAIN pre.assets /\ IsZero(pre.assets[e.a].total), "an asset was deleted while stake was recorded in it")
             ELSE {})
       \cup (IF rec.ev = "GovCreate" /\ rec.res.ok
             THEN Check("C16", e.a \notin DOMAIN pre.assets, "a denom was whitelisted twice (the existing asset was overwritten)")
             ELSE {})

-----------------------------------------------------------------------------
(* C13 reward entitlement: what a claim pays against the ledger *)
C13_Step(pre, rec, post, gh) ==
  LET cl == Claimers(pre, rec)
      e == rec.args
      mid == EntMid(gh, pre, rec, post)
      \* rewards that reached the pool in this step (withdrawn for validators that have someone to split them among)
      inflow(rd) == BSum({v \in DOMAIN pre.env.vals : HasMod(pre, v) /\ v \in DOMAIN post.env.vals /\ ~IsEmptyMap(Info(pre, v).dshares) /\ ~PoolWeightless(pre, v)},
                         LAMBDA v : BMax("0", BSub(Get(Pending(pre, v), rd), Get(Pending(post, v), rd))))
      paid(rd) == BSub(BAdd(Get(pre.bank.rewards, rd), inflow(rd)), Get(post.bank.rewards, rd))
      rds == DOMAIN pre.bank.rewards \cup DOMAIN post.bank.rewards \cup UNION {DOMAIN mid[k] : k \in cl \cap DOMAIN mid}
                \cup UNION {DOMAIN Pending(pre, v) : v \in DOMAIN pre.env.vals}
      entOf(k, rd) == IF k \in DOMAIN mid /\ rd \in DOMAIN mid[k] THEN mid[k][rd] ELSE RZero
      \* the claim multiplies the index by the position's whole-token balance: the entitlement scales with balance / exact value
      scaled(k, rd) == LET val == PosValueRat(pre, k) IN
                         IF IsZero(val[1]) \/ ~BIsNum(pre.bals[k]) THEN RZero ELSE RMul(entOf(k, rd), RMul(RInt(pre.bals[k]), <<val[2], val[1]>>))
      expected(rd) == RSumSet(cl, LAMBDA k : scaled(k, rd))
      segs == BSum(cl, LAMBDA k : BFromInt(2 + Cardinality({x \in DOMAIN pre.snaps : x[1] = k[3] /\ x[2] = k[2] /\ x[3] >= pre.dels[k].lastH})))
      \* resolution of the 18-digit index: per accrual one ulp per token, amplified by the conditioning of the weight split
      \* (an asset whose staked reward weight on the validator is tiny is known only to 10^-18 absolute)
      minW(k) == LET el == PoolEligible(pre, Info(pre, k[2]))
                     w(a) == RMul(Rat(pre.assets[a].weight, ONE), RMul(ValTokRat(pre, k[2], a), Rat("1", pre.assets[a].total)))
                     ws == {w(a) : a \in el}
                 IN  IF ws = {} THEN RInt("1") ELSE CHOOSE x \in ws : \A y \in ws : RLe(x, y)
      nac(k) == BFromInt(2 + (IF k \in DOMAIN gh.nacc THEN gh.nacc[k] ELSE 0))
      res == BAdd(BQuo(RCeil(RSumSet(rds, LAMBDA rd : RSumSet(cl, LAMBDA k : scaled(k, rd)))), "1000000000"),     \* one part in 10^9 (ill-conditioned splits)
             BSum(cl, LAMBDA k : BAdd("1", BAdd(CeilDiv(BMul(BMul(IF BIsNum(pre.bals[k]) THEN pre.bals[k] ELSE "0", nac(k)), "2"), ONE),
                                               IF IsZero(minW(k)[1]) THEN "0"
                                               ELSE RCeil(RMul(RMul(RSumSet(rds, LAMBDA rd : scaled(k, rd)), RInt(BMul("8", nac(k)))), <<minW(k)[2], BMul(minW(k)[1], ONE)>>))))))
      smid == EslackMid(gh, pre, rec, post)
      slackOf(rd) == BSum({k \in cl : k \in DOMAIN smid /\ rd \in DOMAIN smid[k]}, LAMBDA k : smid[k][rd])
      grown == {k \in DOMAIN post.dels : k[3] \in DOMAIN post.assets /\ Started(post.assets[k[3]], post.now)
                                          /\ (k \notin DOMAIN pre.dels \/ BLt(pre.dels[k].shares, post.dels[k].shares))}
  IN  UNION {Check("C13", IsEmptyMap(Pending(pre, k[2])) \/ IsEmptyMap(Pending(post, k[2])) \/ ~HasMod(pre, k[2]),
                   "stake arrived in position " \o ToString(k) \o " while rewards for " \o k[2] \o " were pending in the distribution module and they were not settled first: the new stake will share rewards that accrued before it arrived") : k \in grown}
      \cup
      IF cl = {} \/ cl \cap gh.taint # {} \/ (\E k \in cl : OrphanedTotal(pre, k[3])) THEN {}
      ELSE UNION {
             Check("C13", RLe(RInt(paid(rd)), RAdd(expected(rd), RInt(BAdd(res, slackOf(rd))))),
                   rec.ev \o " by " \o e.d \o " paid " \o paid(rd) \o " " \o rd \o " in rewards; the positions' accrued entitlement is " \o RFloor(expected(rd)) \o
                   " (rewards that accrued before the stake arrived, or a second claim, must pay nothing)")
             \cup Check("C13", RLe(RSub(expected(rd), RInt(BAdd(BAdd(segs, res), slackOf(rd)))), RInt(paid(rd))),
                   rec.ev \o " by " \o e.d \o " paid only " \o paid(rd) \o " " \o rd \o " in rewards; the positions' accrued entitlement is " \o RFloor(expected(rd)))
           : rd \in rds}

-----------------------------------------------------------------------------
(* C17 end-of-block never fails *)
\* K10: the compounded change rate^n of a reward weight is computed before the result is clamped to the weight range; with a
\* rate above one and many elapsed intervals it exceeds the 315 bits of the fixed-point type and the end blocker panics
DecayOverflows(pre, rec) ==
  LET mid == BeforeDecay(pre, rec)
  IN  \E a \in DOMAIN mid.assets :
        LET x == mid.assets[a] IN
          DecayDue(x, mid.now) /\ LET pw == DPow(x.rate, (mid.now - x.lastChg) \div x.chgInt) IN Overflow(pw) \/ Overflow(DMul(x.weight, pw))
\* K12: governance accepts any non-negative reward weight; with a weight of 10^9 and more the rebalancer mints so much stake
\* that the validator's consensus power no longer fits x/staking's int64 and the end blocker panics
HugeWeight(s) == \E a \in DOMAIN s.assets : BLe("1000000000000000000000000000", s.assets[a].weight)
C17_Step(pre, rec, post) ==
  IF rec.ev = "EndBlock"
  THEN CheckK("C17", rec.res.ok /\ ~rec.res.panic,
              IF rec.res.errc = "overflow" /\ DecayOverflows(pre, rec) THEN "K10"
              ELSE IF rec.res.errc = "bound" /\ HugeWeight(pre) THEN "K12" ELSE "",
              "end-of-block failed: " \o rec.res.err)
  ELSE {}

-----------------------------------------------------------------------------
(* C10 voting power / C11 virtual tokens, relational on the recorded staking view *)
ModTok(s, v) == IF HasMod(s, v) THEN TokensFromShares(EnvVal(s, v), EnvVal(s, v).modShares) ELSE "0"    \* Dec
BondedSet(s) == {v \in DOMAIN s.env.vals : IsBonded(s, v)}
NativeOf(s) == BSub(DecFromInt(s.env.totalBonded), BSum({v \in BondedSet(s) : HasMod(s, v)}, LAMBDA v : ModTok(s, v)))    \* Dec
BondedVShares(s, a) == BSum({v \in DOMAIN s.vals : IsBonded(s, v)}, LAMBDA v : Get(s.vals[v].vshares, a))
TargetRat(s, v) ==
  RSumSet({a \in DOMAIN s.assets : Started(s.assets[a], s.now) /\ IsPos(Get(Info(s, v).vshares, a)) /\ IsPos(BondedVShares(s, a))},
          LAMBDA a : RMul(RMul(Rat(s.assets[a].weight, ONE), Rat(NativeOf(s), ONE)), Rat(Get(Info(s, v).vshares, a), BondedVShares(s, a))))
TargetRatOrphans(s, v, gh) ==
  RSumSet({a \in DOMAIN s.assets : Started(s.assets[a], s.now) /\ IsPos(Get(Info(s, v).vshares, a)) /\ IsPos(BondedVShares(s, a))},
          LAMBDA a : RMul(RMul(Rat(s.assets[a].weight, ONE), Rat(NativeOf(s), ONE)), Rat(Get(Info(s, v).vshares, a), BAdd(BondedVShares(s, a), OrphanShares(gh, a)))))
WeightSum(s, v) == RSumSet({a \in DOMAIN s.assets : Started(s.assets[a], s.now) /\ IsPos(Get(Info(s, v).vshares, a))}, LAMBDA a : Rat(s.assets[a].weight, ONE))
C10_Step(pre, rec, post, gh) ==
  IF rec.ev # "EndBlock" \/ ~rec.res.ok THEN {}
  ELSE UNION {CheckK("C10", Within(Rat(ModTok(post, v), ONE), TargetRat(post, v), "2"),
                     \* K7: the rebalancer computes the native bonded amount from per-validator truncated token amounts, rounds it
                     \* to whole units before multiplying by the reward weights and truncates the adjustment: the deviation is
                     \* bounded by 2 + (1 + number of validators carrying module stake) * sum of the weights
                     IF Within(Rat(ModTok(post, v), ONE), TargetRat(post, v),
                               BAdd("2", BMul(BFromInt(1 + Cardinality({u \in BondedSet(pre) : HasMod(pre, u)})), RCeil(WeightSum(post, v))))) THEN "K7"
                     \* K13: the shares of removed validators stay in the asset's share total, which the rebalancer divides by
                     ELSE IF DOMAIN gh.orphans # {} /\ Within(Rat(ModTok(post, v), ONE), TargetRatOrphans(post, v, gh),
                               BAdd("2", BMul(BFromInt(1 + Cardinality({u \in BondedSet(pre) : HasMod(pre, u)})), RCeil(WeightSum(post, v))))) THEN "K13" ELSE "",
                    "after end-of-block, bonded validator " \o v \o " carries alliance stake " \o ModTok(post, v) \o "e-18, not the target within two units")
              : v \in {v \in BondedSet(post) : ~EnvVal(post, v).jailed}}
       \cup UNION {Check("C10", ~IsBonded(pre, v) /\ ~IsBonded(post, v) => ModTok(post, v) = ModTok(pre, v) /\ EnvVal(post, v).modShares = EnvVal(pre, v).modShares,
                         "end-of-block adjusted the alliance stake of validator " \o v \o ", which is not bonded") : v \in DOMAIN pre.env.vals \cap DOMAIN post.env.vals}

NetSupply(s) == BSub(DecFromInt(s.bank.supplyBond), BSum({v \in DOMAIN s.env.vals : HasMod(s, v)}, LAMBDA v : ModTok(s, v)))   \* Dec
AllianceEvents == {"Delegate", "Undelegate", "Redelegate", "Claim", "EndBlock", "SlashHook", "GovCreate", "GovUpdate", "GovDelete", "GovParams", "ExportImport"}
C11_Step(pre, rec, post, gh, gh2) ==
  (IF rec.ev \in AllianceEvents /\ (rec.ev # "EndBlock" \/ rec.res.ok)
   THEN LET touched == Cardinality({v \in DOMAIN pre.env.vals : EnvVal(pre, v).modShares # EnvVal(post, v).modShares})
            \* K9: stray staking coins left in the module account by the previous block are burned by this end-of-block
            burnt == IF rec.ev = "EndBlock" THEN DecFromInt(Get(gh.stuck, BondDenom)) ELSE "0"
        IN  CheckK("C11", BLe(BAbs(BSub(NetSupply(post), NetSupply(pre))), BMul(BFromInt(touched + 1), ONE))
                         /\ (touched = 0 => post.bank.supplyBond = pre.bank.supplyBond \/ rec.ev = "EndBlock"),
                   IF IsPos(burnt) /\ BLe(BAbs(BSub(BAdd(NetSupply(post), burnt), NetSupply(pre))), BMul(BFromInt(touched + 1), ONE)) THEN "K9" ELSE "",
                  rec.ev \o " changed the staking-denom supply net of the module's stake from " \o NetSupply(pre) \o " to " \o NetSupply(post))
   ELSE {})
  \* exact integer accounting: what the module mints it delegates, what it unbonds it burns - the staking-denom supply moves by
  \* exactly as much as the validators' tokens do (stray coins burned by end-of-block aside, K9)
  \cup (IF rec.ev \in AllianceEvents /\ rec.ev # "SlashHook" /\ (rec.ev # "EndBlock" \/ rec.res.ok)
        THEN LET dTok == BSum(DOMAIN pre.env.vals \cap DOMAIN post.env.vals, LAMBDA v : BSub(EnvVal(post, v).tokens, EnvVal(pre, v).tokens))
                 dSup == BSub(post.bank.supplyBond, pre.bank.supplyBond)
                 stray == IF rec.ev = "EndBlock" THEN Get(pre.bank.custody, BondDenom) ELSE "0"
             IN  CheckK("C11", BAdd(dSup, stray) = dTok, IF FALSE THEN "K9" ELSE "",
                        rec.ev \o " changed the staking-denom supply by " \o dSup \o " (plus " \o stray \o " stray coins burned) but the validators' tokens by " \o dTok)
        ELSE {})
  \cup (IF rec.ev = "EndBlock" /\ rec.res.ok
        THEN CheckK("C11", IsZero(Get(post.bank.custody, BondDenom)),
                    IF Get(post.bank.custody, BondDenom) = Get(gh2.stuck, BondDenom) THEN "K9" ELSE "",
                    "the module account holds staking-denom coins after end-of-block") ELSE {})

C11_Probes(s, rec) ==
  LET bonded == BSum({v \in BondedSet(s) : HasMod(s, v)}, LAMBDA v : TokensFromSharesTrunc(EnvVal(s, v), EnvVal(s, v).modShares))
      net == BSub(s.bank.supplyBond, TruncInt(bonded))
  IN  UNION {IF p.kind \in {"supplyOf", "totalSupply"}
             THEN Check("C11", p.ok /\ p.val = net, p.kind \o " reports " \o p.val \o " for the staking denom; supply net of the alliance-bonded amount is " \o net)
             ELSE {} : p \in ProbeSet(rec)}

-----------------------------------------------------------------------------
(* C20 queries *)
ItemBag(items, f(_)) == BagOfSeq([i \in DOMAIN items |-> f(items[i])])
UnbRefBag(s, sel(_)) ==
  LET xs == {x \in UnbEntries(s) : sel(s.unbQ[x[1]][x[2]])}
      tup(x) == <<s.unbQ[x[1]][x[2]].v, s.unbQ[x[1]][x[2]].a, s.unbQ[x[1]][x[2]].bal, x[1][1]>>
      R == {tup(x) : x \in xs}
  IN  [r \in R |-> Cardinality({x \in xs : tup(x) = r})]
RedRefBag(s, sel(_)) ==
  LET ks == {k \in DOMAIN s.redRec : sel(k)}
      tup(k) == <<s.redRec[k].d, s.redRec[k].src, s.redRec[k].dst, s.redRec[k].a, s.redRec[k].bal, k[4]>>
  IN  [r \in {tup(k) : k \in ks} |-> Cardinality({k \in ks : tup(k) = r})]
DelRefBag(s, sel(_)) ==
  LET ks == {k \in DOMAIN s.dels : sel(k)}
      tup(k) == <<k[1], k[2], k[3], s.bals[k], s.dels[k].shares>>
  IN  [r \in {tup(k) : k \in ks} |-> 1]
C20_Probes(s, rec, gh) ==
  UNION {
    CASE p.kind = "qUnb" -> Check("C20", p.ok /\ ItemBag(p.items, LAMBDA x : <<x.v, x.a, x.x, x.t>>) = UnbRefBag(s, LAMBDA en : en.d = p.d /\ en.v = p.v /\ en.a = p.a),
                                  "unbondings(" \o p.d \o "," \o p.v \o "," \o p.a \o ") does not return exactly the pending entries of that delegator, validator and denom")
      [] p.kind = "qUnbByDenomDel" -> Check("C20", p.ok /\ ItemBag(p.items, LAMBDA x : <<x.v, x.a, x.x, x.t>>) = UnbRefBag(s, LAMBDA en : en.d = p.d /\ en.a = p.a),
                                  "unbondings by denom and delegator (" \o p.d \o "," \o p.a \o ") does not return exactly the matching pending entries")
      [] p.kind = "qUnbByDel" -> Check("C20", p.ok /\ ItemBag(p.items, LAMBDA x : <<x.v, x.a, x.x, x.t>>) = UnbRefBag(s, LAMBDA en : en.d = p.d /\ en.a \in DOMAIN s.assets),
                                  "unbondings by delegator (" \o p.d \o ") does not return exactly the pending entries of that delegator")
      [] p.kind = "qRed" -> Check("C20", p.ok /\ ItemBag(p.items, LAMBDA x : <<x.d, x.src, x.dst, x.a, x.x, x.t>>) = RedRefBag(s, LAMBDA k : k[1] = p.d /\ k[2] = p.a),
                                  "redelegations(" \o p.d \o "," \o p.a \o ") page size " \o ToString(p.limit) \o " does not return exactly the pending records")
      [] p.kind = "qRedByDel" -> Check("C20", p.ok /\ ItemBag(p.items, LAMBDA x : <<x.d, x.src, x.dst, x.a, x.x, x.t>>) = RedRefBag(s, LAMBDA k : k[1] = p.d),
                                  "redelegations by delegator (" \o p.d \o ") page size " \o ToString(p.limit) \o " does not return exactly the pending records")
      [] p.kind = "qDelsByDel" -> CheckK("C20", p.ok /\ ItemBag(p.items, LAMBDA x : <<x.d, x.v, x.a, x.x, x.sh>>) = DelRefBag(s, LAMBDA k : k[1] = p.d),
                                  IF ~p.ok /\ p.errc = "novalidator" /\ (\E k \in DOMAIN s.dels : k[1] = p.d /\ k[2] \in DOMAIN gh.orphans) THEN "K13" ELSE "",
                                  "delegations by delegator (" \o p.d \o ") page size " \o ToString(p.limit) \o " does not return exactly the delegation records")
      [] p.kind = "qDelsByDelVal" -> CheckK("C20", \/ p.ok /\ ItemBag(p.items, LAMBDA x : <<x.d, x.v, x.a, x.x, x.sh>>) = DelRefBag(s, LAMBDA k : k[1] = p.d /\ k[2] = p.v)
                                                   \* a validator that x/staking has removed is reported as not found
                                                   \/ ~p.ok /\ ~ValExists(s, p.v) /\ ~\E k \in DOMAIN s.dels : k[1] = p.d /\ k[2] = p.v,
                                  IF ~p.ok /\ p.v \in DOMAIN gh.orphans THEN "K13" ELSE "",
                                  "delegations by delegator and validator does not return exactly the delegation records")
      [] p.kind = "qAllDels" -> CheckK("C20", p.ok /\ ItemBag(p.items, LAMBDA x : <<x.d, x.v, x.a, x.x, x.sh>>) = DelRefBag(s, LAMBDA k : TRUE),
                                  IF ~p.ok /\ p.errc = "novalidator" /\ DOMAIN gh.orphans # {} THEN "K13" ELSE "",
                                  "all delegations page size " \o ToString(p.limit) \o " does not return exactly the delegation records")
      [] p.kind = "bindDelegation" -> CheckK("C20", p.ok /\ <<p.d, p.v, p.a>> \in DOMAIN s.bals /\ p.val = s.bals[<<p.d, p.v, p.a>>],
                                  IF ~p.ok /\ p.errc = "novalidator" /\ p.v \in DOMAIN gh.orphans THEN "K13" ELSE "",
                                  "contract binding reports delegation amount " \o p.val \o ", the gRPC query another value")
      [] p.kind = "exit" -> CheckK("C20", p.ok, ProbeKF(s, rec, gh, p), "the reported balance " \o p.x \o " of " \o p.d \o " on " \o p.v \o "/" \o p.a \o " cannot be undelegated: " \o p.err)
      [] p.kind = "undelPlus" -> Check("C20", ~p.ok, "more than the reported balance (" \o p.x \o ") of " \o p.d \o " on " \o p.v \o "/" \o p.a \o " can be undelegated")
                                 \cup Check("C04", ~p.ok, "a position can be undelegated for more (" \o p.x \o ") than its reported value: " \o p.d \o " on " \o p.v \o "/" \o p.a)
      [] p.kind = "bindAlliance" -> Check("C20", p.ok /\ p.vals.weight = p.vals.g_weight /\ p.vals.take = p.vals.g_take /\ p.vals.total = p.vals.g_total
                                                 /\ p.vals.vshares = p.vals.g_vshares /\ p.vals.rate = p.vals.g_rate /\ p.vals.wmin = p.vals.g_wmin /\ p.vals.wmax = p.vals.g_wmax
                                                 /\ p.vals.init = p.vals.g_init,
                                  "contract binding reports other asset fields than the gRPC query for " \o p.a)
                            \cup CheckK("C20", p.ok => (p.vals.start \in {p.vals.g_start_unix, p.vals.g_start_nanos} /\ p.vals.lastChg \in {p.vals.g_lastChg_unix, p.vals.g_lastChg_nanos}),
                                  \* K6: the binding reports Time.Nanosecond(), the nanoseconds within the second
                                  IF p.ok /\ p.vals.start = p.vals.g_start_nsec /\ p.vals.lastChg = p.vals.g_lastChg_nsec THEN "K6" ELSE "",
                                  "contract binding reports time fields of " \o p.a \o " that are not the asset's times (start " \o (IF p.ok THEN p.vals.start ELSE "-") \o ")")
      [] OTHER -> {}
    : p \in ProbeSet(rec)}
  \cup UNION {LET q == {q \in ProbeSet(rec) : q.kind = "qRewards" /\ q.d = p.d /\ q.v = p.v /\ q.a = p.a} IN
                IF p.kind = "bindRewards" /\ q # {} THEN Check("C20", \A x \in q : x.ok = p.ok /\ (x.ok => x.paid = p.paid), "contract binding reports other rewards than the gRPC query for " \o p.d \o " on " \o p.v \o "/" \o p.a)
                ELSE {} : p \in ProbeSet(rec)}

-----------------------------------------------------------------------------
(* C18 genesis round trip, evaluated on an ExportImport step: pre is the original state *)
AnyMerged(gh) == \E i \in DOMAIN gh.red : MergedRecord(gh, <<gh.red[i].d, gh.red[i].dst, gh.red[i].a>>)
C18_Step(pre, rec, post, gh) ==
  IF rec.ev # "ExportImport" THEN {}
  ELSE Check("C18", rec.res.ok, "export/import failed: " \o rec.res.err)
       \cup Check("C18", rec.res.ok => rec.res.same, "a second export (after re-import) is not identical to the first")
       \cup UNION {CheckK("C18", ObsView(pre)[f] = ObsView(post)[f],
                          \* K4: a merged redelegation record keeps only its first source, so its index and queue entries for the other
                          \* source cannot be rebuilt from the exported record
                          IF f \in {"redIdx", "redQ"} /\ AnyMerged(gh) THEN "K4" ELSE "",
                          "after export and re-import the module's " \o f \o " differ from the original") : f \in DOMAIN ObsView(pre) \ {"flag"}}
       \* a rebalance that is pending must still be pending; an additional one is a no-op at a fix-point
       \cup Check("C18", pre.flag => post.flag, "a pending rebalance is lost by export and re-import")

\* lock-step: every event after a ForkImport is executed on the original state (the trace) and on the sibling branch whose
\* module store was exported, wiped and re-imported (rec.mirror): same result, same module state, same balances
C18_Mirror(pre, rec, post, gh) ==
  (IF rec.ev = "ForkImport"
   THEN Check("C18", rec.res.ok, "export/import failed: " \o rec.res.err)
        \cup Check("C18", rec.res.ok => rec.res.same, "a second export (after re-import) is not identical to the first")
   ELSE {})
  \cup
  (IF Len(rec.mirror) # 1 THEN {}
   ELSE LET m == rec.mirror[1]
            mp == NormState(m.post)
            kf == IF AnyMerged(gh) \/ gh.diverged = "K4" THEN "K4" ELSE ""
        IN  CheckK("C18", m.res.ok = rec.res.ok /\ m.res.errc = rec.res.errc, kf,
                   rec.ev \o " on the re-imported module: " \o (IF m.res.ok THEN "succeeds" ELSE "fails (" \o m.res.err \o ")") \o
                   ", on the original: " \o (IF rec.res.ok THEN "succeeds" ELSE "fails (" \o rec.res.err \o ")"))
            \cup UNION {CheckK("C18", ObsView(mp)[f] = ObsView(post)[f], kf,
                               "after " \o rec.ev \o " the re-imported module's " \o f \o " differ from the original's") : f \in DOMAIN ObsView(post) \ {"flag"}}
            \cup CheckK("C18", mp.bank.custody = post.bank.custody /\ mp.bank.rewards = post.bank.rewards /\ mp.bank.fee = post.bank.fee /\ mp.bank.users = post.bank.users, kf,
                        "after " \o rec.ev \o " balances (custody, rewards pool, fee collector, users) differ between the re-imported module and the original"))

-----------------------------------------------------------------------------
(* C19 determinism: the harness executed the step detn times on sibling branches of one state (plus once for real) and
   compared the raw stores of x/alliance, x/bank, x/staking, x/distribution, x/slashing, x/auth, x/mint, the results and the
   emitted events *)
C19_Step(pre, rec, post) ==
  IF rec.res.detn = 0 THEN {}
  ELSE Check("C19", rec.res.det, rec.ev \o " executed " \o ToString(rec.res.detn) \o " times from the same state produced different stores, results or events (" \o rec.res.detDiff \o ")")

-----------------------------------------------------------------------------
JudgeState(s, rec, gh) ==
  C01_State(s, gh) \cup C03_State(s, gh) \cup AssetValid_State(s) \cup C15_State(s) \cup C02_State(s) \cup C04_State(s)
  \cup C05_Probes(s, rec, gh) \cup C12_Probes(s, rec, gh) \cup C20_Probes(s, rec, gh) \cup C11_Probes(s, rec) \cup C15_Probes(s, rec, gh)

Judge(pre, rec, post, gh, gh2) ==
  JudgeState(post, rec, gh2)
  \cup C02_Step(pre, rec, post, gh) \cup C07_Unb_Step(pre, rec, post, gh) \cup C07_Red_Step(pre, rec, post, gh)
  \cup C08_Step(pre, rec, post, gh) \cup C06_Step(pre, rec, post, gh) \cup C04_Step(pre, rec, post)
  \cup C09_Step(pre, rec, post, gh) \cup C14_Step(pre, rec, post) \cup C14_Settle(pre, rec, post)
  \cup C15_Step(pre, rec, post, gh) \cup C16_Step(pre, rec, post) \cup C17_Step(pre, rec, post)
  \cup C10_Step(pre, rec, post, gh2) \cup C11_Step(pre, rec, post, gh, gh2) \cup C18_Step(pre, rec, post, gh)
  \cup C13_Step(pre, rec, post, gh) \cup C19_Step(pre, rec, post) \cup C18_Mirror(pre, rec, post, gh)

\* coverage tags: which property antecedents were exercised non-trivially at this step
Covers(pre, rec, post, gh, gh2) ==
  (IF SlashValid(rec) /\ ValExists(pre, rec.args.v) THEN {"slash"} ELSE {})
  \cup (IF SlashValid(rec) /\ \E i \in DOMAIN gh.unb : gh.unb[i].v = rec.args.v /\ gh.unb[i].due >= pre.now THEN {"slash-meets-unbonding"} ELSE {})
  \cup (IF SlashValid(rec) /\ \E i \in DOMAIN gh.red : gh.red[i].src = rec.args.v /\ gh.red[i].due >= pre.now THEN {"slash-meets-redelegation"} ELSE {})
  \cup (IF rec.ev = "EndBlock" /\ \E i \in DOMAIN gh.unb : gh.unb[i].due < pre.now THEN {"payout"} ELSE {})
  \cup (IF rec.ev = "EndBlock" /\ \E a \in DOMAIN pre.assets \cap DOMAIN post.assets : pre.assets[a].total # post.assets[a].total THEN {"take-rate-charge"} ELSE {})
  \cup (IF rec.ev = "EndBlock" /\ WeightChanged(pre, post) # {} THEN {"weight-decay"} ELSE {})
  \cup (IF rec.ev = "EndBlock" /\ pre.flag THEN {"rebalance"} ELSE {})
  \cup (IF rec.res.ok /\ rec.ev \in {"Delegate", "Undelegate", "Redelegate", "Claim"} THEN {rec.ev} ELSE {})
  \cup (IF rec.ev \in GovEvents THEN {IF rec.res.ok THEN "gov-accept" ELSE "gov-reject"} ELSE {})
  \cup (IF rec.ev = "EndBlock" THEN {"endblock"} ELSE {})
  \cup (IF rec.res.detn > 0 THEN {"replayed"} ELSE {})
  \cup (IF Claimers(pre, rec) # {} /\ Claimers(pre, rec) \cap gh.taint = {}
           /\ (\E k \in Claimers(pre, rec) : k \in DOMAIN EntMid(gh, pre, rec, post) /\ \E rd \in DOMAIN EntMid(gh, pre, rec, post)[k] : IsPos(EntMid(gh, pre, rec, post)[k][rd][1]))
        THEN {"claim-with-entitlement"} ELSE {})
  \cup (IF rec.ev \in {"ExportImport", "ForkImport"} THEN {"export-import"} ELSE {})
  \cup (IF Len(rec.mirror) = 1 THEN {"export-import"} ELSE {})
  \cup (IF \E p \in ProbeSet(rec) : p.kind \in {"delegate", "claim", "exit"} THEN {"probe-liveness"} ELSE {})
  \cup (IF \E p \in ProbeSet(rec) : p.kind = "claimAll" THEN {"probe-claimall"} ELSE {})
  \cup (IF \E p \in ProbeSet(rec) : p.kind = "qUnb" THEN {"probe-queries"} ELSE {})
  \cup (IF \E p \in ProbeSet(rec) : p.kind = "redelegate" THEN {"probe-redeleg"} ELSE {})
  \cup (IF \E p \in ProbeSet(rec) : p.kind = "supplyOf" THEN {"probe-supply"} ELSE {})
=============================================================================
