---------------------------- MODULE AllianceTrace ----------------------------
(***************************************************************************)
(* Open system: validates traces recorded from the REAL keeper.            *)
(*                                                                         *)
(* One TLC step per recorded event.  For every event the specification     *)
(*  (1) recomputes the exact successor of the recorded pre-state under the *)
(*      named action of Alliance.tla and reports the fields in which the   *)
(*      recorded post-state differs (DRIFT: conformance, never a verdict), *)
(*  (2) evaluates every property operator of AllianceProps.tla on the      *)
(*      RECORDED states, probes and results (VIOL: the verdicts),          *)
(*  (3) resynchronises on the recorded post-state and advances the ghost   *)
(*      ledgers.                                                           *)
(* Environment-owned values (x/staking, x/distribution, what users hold)   *)
(* are read from the log.  Many traces are concatenated; an "Init" record  *)
(* starts a new one.                                                       *)
(***************************************************************************)
EXTENDS AllianceProps, Json, IOUtils

TraceFile == IF "TRACE" \in DOMAIN IOEnv THEN IOEnv.TRACE ELSE "trace.ndjson"
Trace == ndJsonDeserialize(TraceFile)

VARIABLES l,      \* number of records consumed
          st,     \* recorded (real) abstract state after record l
          gh,     \* ghost ledgers (AllianceProps)
          tr      \* name of the current trace

vars == <<l, st, gh, tr>>

-----------------------------------------------------------------------------
(* JSON projection -> abstract state: NormState in AllianceProps *)
Norm(j) == NormState(j)

EmptyState == [now |-> 0]

-----------------------------------------------------------------------------
(* exact successor under the named action (open system) *)

\* module-owned effects of the environment's own steps, through the staking hooks
\* x/staking calls AfterValidatorBonded when a validator enters the bonded set and AfterValidatorBeginUnbonding when it
\* leaves it; unbonding -> unbonded calls no hook of this module
StatusChanged(pre, post) ==
  \E v \in DOMAIN pre.env.vals : v \in DOMAIN post.env.vals
       /\ pre.env.vals[v].status # post.env.vals[v].status
       /\ "bonded" \in {pre.env.vals[v].status, post.env.vals[v].status}
RemovedVals(pre, post) == {v \in DOMAIN pre.env.vals : pre.env.vals[v].status # "removed" /\ post.env.vals[v].status = "removed"}
EnvHooks(pre, post, raise) ==
  LET gone == RemovedVals(pre, post)
  IN  [pre EXCEPT !.vals = [v \in DOMAIN @ \ gone |-> @[v]],
                  !.flag = @ \/ raise \/ gone # {} \/ StatusChanged(pre, post)]

Expected(pre, rec, post) ==
  LET e == rec.args
      ev == rec.ev
  IN  CASE ev = "BeginBlock" -> Ok([pre EXCEPT !.now = @ + e.dt, !.height = @ + 1])
        [] ev = "Delegate"   -> Delegate(pre, e.d, e.v, e.a, e.x)
        [] ev = "Undelegate" -> Undelegate(pre, e.d, e.v, e.a, e.x)
        [] ev = "Redelegate" -> Redelegate(pre, e.d, e.src, e.dst, e.a, e.x, FixF5)
        [] ev = "Claim"      -> Claim(pre, e.d, e.v, e.a)
        [] ev = "SlashHook"  -> SlashHook(pre, e.v, e.f, FixF2, FixF6)
        [] ev = "RealSlash"  -> IF rec.res.burned = "0" \/ rec.res.burned = "" THEN Ok(pre)
                                ELSE LET r == SlashHook(pre, e.v, rec.res.feff, FixF2, FixF6) IN Ok(r.s)    \* x/staking swallows the hook's error
        [] ev = "EndBlock"   -> EndBlock(pre)
        [] ev = "StakingEndBlock" -> Ok(EnvHooks(pre, post, FALSE))
        [] ev = "NativeDelegate" -> IF rec.res.ok THEN Ok(EnvHooks(pre, post, TRUE)) ELSE Ok(pre)
        [] ev = "NativeUndelegate" ->
             IF ~rec.res.ok THEN Ok(pre)
             ELSE Ok(EnvHooks(pre, post, FixF4 \/ e.x # "all"))
        [] ev = "Unjail" -> Ok(pre)
        [] ev = "Jail" -> Ok(pre)
        [] ev = "Accrue" -> Ok(pre)
        [] ev = "AccrueFees" -> IF rec.res.ok THEN Ok([pre EXCEPT !.bank.fee = NoCoins]) ELSE Ok(pre)
        [] ev = "Donate" -> IF rec.res.ok
                            THEN Ok([pre EXCEPT !.bank.custody = CoinsAdd(@, Coin(e.a, e.x)),
                                                !.bank.donated = CoinsAdd(@, Coin(e.a, e.x)),
                                                !.bank.users[e.d] = CoinsSub(@, Coin(e.a, e.x))])
                            ELSE Ok(pre)
        [] ev = "GovCreate" -> GovCreate(pre, e)
        [] ev = "GovUpdate" -> GovUpdate(pre, e)
        [] ev = "GovDelete" -> GovDelete(pre, e)
        [] ev = "GovParams" -> GovParams(pre, e, FixF1)
        [] ev = "ExportImport" -> Ok(Reimport(pre, FixF7))
        [] ev = "ForkImport" -> Ok(pre)          \* the trace continues on the original state; the re-imported sibling is rec.mirror
        [] OTHER -> Ok(pre)

EnvEvents == {"StakingEndBlock", "NativeDelegate", "NativeUndelegate", "Unjail", "Jail", "Accrue", "AccrueFees", "RealSlash"}
StoreFields == {"now", "height", "params", "assets", "vals", "dels", "unbQ", "unbIdx", "redRec", "redIdx", "redQ", "flag", "snaps"}
BankFields == {"custody", "rewards", "fee", "donated"}

NonBond(coins) == [k \in DOMAIN coins \ {BondDenom} |-> coins[k]]
DriftOf(pre, rec, post) ==
  LET r == Expected(pre, rec, post)
      es == r.s
      f1 == {f \in StoreFields : es[f] # post[f]}
      \* the rebalancer mints and burns through the module account within a step; the net effect on custody is nil
      f2 == {f \in BankFields : es.bank[f] # post.bank[f]}
      f3 == IF rec.ev \in EnvEvents \/ rec.ev = "EndBlock" THEN {}
            ELSE {"users"} \cap (IF es.bank.users # post.bank.users THEN {"users"} ELSE {})
      f4 == IF rec.ev \in {"RealSlash", "Unjail", "Jail", "Accrue", "AccrueFees", "NativeDelegate", "NativeUndelegate", "StakingEndBlock", "BeginBlock", "Donate", "ExportImport", "ForkImport"} THEN {}
            ELSE IF r.ok # rec.res.ok THEN {"ok"} ELSE {}
  IN  f1 \cup f2 \cup f3 \cup f4

-----------------------------------------------------------------------------
\* for function-valued store fields: the keys at which expected and recorded values differ (diagnostics only)
DriftDetail(pre, rec, post, fields) ==
  LET es == Expected(pre, rec, post).s
      fn == fields \cap {"assets", "vals", "dels", "unbQ", "redRec", "redQ", "snaps"}
  IN  [f \in fn |-> ToString({k \in DOMAIN es[f] \cup DOMAIN post[f] : k \notin DOMAIN es[f] \/ k \notin DOMAIN post[f] \/ es[f][k] # post[f][k]})]

Init == l = 0 /\ st = EmptyState /\ gh = GhostInit /\ tr = ""

Emit(kind, rec, payload) ==
  PrintT(kind \o " " \o ToJson([trace |-> tr, i |-> rec.i, ev |-> rec.ev, info |-> payload]))

Next ==
  /\ l < Len(Trace)
  /\ LET rec == Trace[l + 1]
         post == Norm(rec.post)
     IN  IF rec.ev = "Init"
         THEN /\ st' = post
              /\ gh' = GhostStart(post, rec)
              /\ tr' = rec.trace
              /\ l' = l + 1
              /\ PrintT("COVER " \o ToJson([trace |-> rec.trace, i |-> rec.i, tags |-> {"init"}]))
              /\ LET v == JudgeState(post, rec, GhostStart(post, rec)) IN
                   \A x \in v : PrintT("VIOL " \o ToJson([trace |-> rec.trace, i |-> rec.i, ev |-> rec.ev, prop |-> x.p, msg |-> x.m, kf |-> x.kf]))
         ELSE LET gh2 == GhostNext(gh, st, rec, post, DriftOf(st, rec, post) = {})
                  v == Judge(st, rec, post, gh, gh2)
                  d == DriftOf(st, rec, post)
                  c == Covers(st, rec, post, gh, gh2)
              IN  \* a branch record was executed on a discarded copy of the state: it is judged, the trace does not advance
                  /\ st' = IF rec.args.branch THEN st ELSE post
                  /\ gh' = IF rec.args.branch THEN gh ELSE gh2
                  /\ tr' = tr
                  /\ l' = l + 1
                  /\ \A x \in v : PrintT("VIOL " \o ToJson([trace |-> tr, i |-> rec.i, ev |-> rec.ev, prop |-> x.p, msg |-> x.m, kf |-> x.kf]))
                  /\ d = {} \/ PrintT("DRIFT " \o ToJson([trace |-> tr, i |-> rec.i, ev |-> rec.ev, fields |-> d, detail |-> DriftDetail(st, rec, post, d)]))
                  /\ c = {} \/ PrintT("COVER " \o ToJson([trace |-> tr, i |-> rec.i, tags |-> c]))

Spec == Init /\ [][Next]_vars

\* every record of the file was consumed
Consumed == TLCGet("stats").diameter - 1 = Len(Trace)
=============================================================================
