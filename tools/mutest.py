#!/usr/bin/env python3
"""mutest.py <patch> [--tier quick] [--seed N] [--props C01,C02|all]
Apply a patch to /repo, run the checks, undo the patch. Prints which checks raise a VIOLATION."""
import sys, subprocess, os, re, json, time
REPO=os.environ.get("VERIF_REPO","/repo"); VERIF=os.path.dirname(os.path.dirname(os.path.abspath(__file__)))
patch = sys.argv[1]
tier = sys.argv[sys.argv.index('--tier')+1] if '--tier' in sys.argv else 'quick'
seed = sys.argv[sys.argv.index('--seed')+1] if '--seed' in sys.argv else '1'
props = sys.argv[sys.argv.index('--props')+1] if '--props' in sys.argv else 'all'
allp = ['C%02d' % i for i in range(1, 21)]
props = allp if props == 'all' else props.split(',')
target = None
for l in open(patch):
    m = re.match(r'# property: (\w+)', l)
    if m: target = m.group(1)
body = ''.join(l for l in open(patch) if not l.startswith('# '))
tmp = '/tmp/mutest.patch'; open(tmp, 'w').write(body)
assert subprocess.run(['git', '-C', REPO, 'status', '--porcelain', '--', 'x', 'custom', 'app'], capture_output=True, text=True).stdout.strip() == '', 'repo dirty'
subprocess.check_call(['git', '-C', REPO, 'apply', tmp])
t0 = time.time()
caught = {}
try:
    order = ([target] if target in props else []) + [p for p in props if p != target]
    for p in order:
        r = subprocess.run([VERIF+'/bin/check', p, '--tier', tier], capture_output=True, text=True, env=dict(os.environ, VERIF_SEED=seed), cwd=VERIF)
        v = [l for l in r.stdout.splitlines() if l.startswith('VIOLATION')]
        if r.returncode == 1 and v:
            msg = [l.strip() for l in r.stdout.splitlines() if l.startswith('  ')]
            caught[p] = (msg[0] if msg else '')[:160]
        elif r.returncode not in (0, 1):
            caught[p] = 'EXIT %d %s' % (r.returncode, (r.stderr or r.stdout)[-200:].replace('\n', ' '))
finally:
    subprocess.check_call(['git', '-C', REPO, 'checkout', '--', 'x', 'custom', 'app'])
name = os.path.basename(patch)
real = sorted(p for p, m in caught.items() if not m.startswith('EXIT '))
status = ('CAUGHT by ' + ','.join(real)) if real else ('ERROR (no verdict)' if caught else 'MISSED')
print('%s target=%s %s in %.0fs' % (name, target, status, time.time() - t0))
for p, m in sorted(caught.items()):
    print('   ', p, m)
# restore evidence files of the unchanged tree (the runs above rewrote them)
subprocess.run(['git', '-C', VERIF, 'checkout', '--', 'evidence'], capture_output=True)
