#!/usr/bin/env python3
"""show.py trace.ndjson <traceName> [upto]  -- compact event list of one trace"""
import sys,json
f,name=sys.argv[1],sys.argv[2]
upto=int(sys.argv[3]) if len(sys.argv)>3 else 10**9
cur=None
for line in open(f):
    r=json.loads(line)
    if r['ev']=='Init': cur=r.get('trace')
    if cur!=name or r['i']>upto: continue
    if r['ev']=='Init':
        print('CFG',json.dumps(r['cfg']))
    a={k:v for k,v in r['args'].items() if v not in ('',0,False,None,[]) and k!='ev'}
    res=r['res']
    print(r['i'],r['ev'],a,'OK' if res['ok'] else ('PANIC ' if res['panic'] else 'ERR ')+res['err'][:80], {k:v for k,v in res.items() if k in('feff','burned') and v})
