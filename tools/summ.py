#!/usr/bin/env python3
"""summ.py [results.json ...]  -- summary of violations/drift in cached results (most recent by default)"""
import sys,json,glob,os,re,collections
fs=[a for a in sys.argv[1:] if a!='-a'] or sorted(glob.glob('/verif/.cache/tree-*/traces-*/results.json'),key=os.path.getmtime)[-1:]
for f in fs:
    print('==',f)
    rs=json.load(open(f))
    c=collections.Counter(); ex={}
    for r in rs:
        for v in r['viols']:
            if v.get('kf') and '-a' not in sys.argv: continue
            k=('V',v['prop'],v.get('kf',''),re.sub(r'[0-9]+','N',v['msg'])[:100])
            c[k]+=1; ex.setdefault(k,(v['trace'],v['i'],v['ev']))
        for d in r['drifts']:
            k=('D',d['ev'],','.join(d['fields'])); c[k]+=1; ex.setdefault(k,(d['trace'],d['i']))
    for k,n in sorted(c.items(),key=lambda x:(x[0][0],x[0][1],-x[1])):
        print(n,*k,ex[k])
