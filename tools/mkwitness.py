#!/usr/bin/env python3
"""mkwitness.py <kf-id> [property]  -- find the shortest history in the cached results that exhibits a known finding and write it to known/<kf>.json"""
import sys, json, glob, os
kf = sys.argv[1]; prop = sys.argv[2] if len(sys.argv) > 2 else None
best = None
for f in glob.glob('/verif/.cache/tree-*/traces-*/results.json'):
    for r in json.load(open(f)):
        for v in r['viols']:
            if v.get('kf') == kf and (prop is None or v['prop'] == prop):
                if not os.path.exists(r['sched']): continue
                if best is None or v['i'] < best[0]['i']:
                    best = (v, r)
if not best:
    print('no occurrence of', kf); sys.exit(1)
v, r = best
scheds = json.load(open(r['sched']))
s = [x for x in (scheds if isinstance(scheds, list) else [scheds]) if x.get('name') == v['trace']][0]
s = dict(s); s['events'] = s['events'][:v['i']]; s['name'] = 'known/' + kf; s['note'] = 'witness of known finding %s: %s' % (kf, v['msg'][:200])
s['every'] = 1; s['det'] = 0
os.makedirs('/verif/known', exist_ok=True)
json.dump(s, open('/verif/known/%s.json' % kf, 'w'))
print(kf, 'witness:', v['trace'], 'step', v['i'], v['prop'], v['msg'][:120])
