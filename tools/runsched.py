#!/usr/bin/env python3
"""runsched.py <schedule.json> [--keep dir]  -- run one hand-written/recorded schedule on the current tree, validate the trace,
print violations (with attribution), drift and coverage tags.  Triage tool, not a check."""
import sys, os, json, tempfile, shutil
sys.path.insert(0, os.path.join(os.path.dirname(os.path.abspath(__file__)), "..", "lib"))
import checklib as L
path = sys.argv[1]
keep = sys.argv[sys.argv.index("--keep") + 1] if "--keep" in sys.argv else None
body = json.load(open(path))
scheds = body if isinstance(body, list) else [body.get("schedule", body)]
binp = L.build_harness(L.tree_hash())
sd = L.spec_dir()
tmp = keep or tempfile.mkdtemp(prefix="runsched-", dir=L.CACHE)
os.makedirs(tmp, exist_ok=True)
try:
    sf = os.path.join(tmp, "s.json")
    json.dump(scheds, open(sf, "w"))
    L.run_harness(binp, tmp, ["-mode", "replay", "-in", sf])
    res = L.run_tlc(sd, os.path.join(tmp, "replay-0.ndjson"))
    known = L.load_known()
    print("states", res.get("states"), "cover", sorted(res.get("cover", {}).items())[:60])
    shown = 0
    for v in res["viols"]:
        if L.attribute(v, known) and "-a" not in sys.argv:
            continue
        shown += 1
        if shown > 14:
            continue
        print("VIOL %s %s step %d (%s) kf=%s attributed=%s: %s" % (v["prop"], v.get("trace", ""), v["i"], v["ev"], v.get("kf"), bool(L.attribute(v, known)), v["msg"][:260]))
    print("unattributed/shown violations:", shown)
    for d in res.get("drifts", [])[:20]:
        print("DRIFT", json.dumps(d)[:300])
finally:
    if not keep:
        shutil.rmtree(tmp, ignore_errors=True)
