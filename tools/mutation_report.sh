#!/bin/bash
# run every change under mutants/ through all quick checks (seed from $1, default 1) and write mutants/RESULTS.md
SEED=${1:-1}
cd "$(dirname "$0")/.."
OUT=mutants/RESULTS.md
echo "| change | target | reported by (quick tier, seed $SEED) |" > $OUT.tmp
echo "|---|---|---|" >> $OUT.tmp
for m in mutants/*.patch; do
  r=$(python3 tools/mutest.py $m --seed $SEED 2>&1 | head -1)
  name=$(basename $m .patch)
  tgt=$(echo "$r" | sed -n 's/.*target=\([A-Z0-9]*\).*/\1/p')
  by=$(echo "$r" | sed -n 's/.*CAUGHT by \([A-Z0-9,]*\).*/\1/p')
  [ -z "$by" ] && by="MISSED"
  note=$(sed -n '2p' $m | sed 's/^# //' | cut -c1-140)
  echo "| $name — $note | $tgt | $by |" >> $OUT.tmp
  echo "$r"
done
mv $OUT.tmp $OUT
