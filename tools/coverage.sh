#!/bin/bash
# coverage.sh [outdir] -- which code of x/alliance and custom/ do the drivers execute?  Development aid, not a check.
# Builds the harness with coverage instrumentation of the module's packages, runs every random family once and every fixed
# schedule, merges the profiles and prints per-file coverage plus the uncovered blocks of the keeper.
set -e
V=$(cd "$(dirname "$0")/.." && pwd); REPO=${VERIF_REPO:-/repo}
O=${1:-$(mktemp -d /tmp/verif-cov.XXXXXX)}; mkdir -p "$O/src"
export GOFLAGS=-mod=mod GOPROXY=off GOSUMDB=off GOTOOLCHAIN=local
cp "$V"/harness/*.go "$O/src/"; sed "s#=> /repo#=> $REPO#" "$V/harness/go.mod" > "$O/src/go.mod"; cp "$REPO/go.sum" "$O/src/"
(cd "$O/src" && go test -c -cover -coverpkg=github.com/terra-money/alliance/x/alliance/...,github.com/terra-money/alliance/custom/... -o "$O/h.test" .)
cd "$O"
for f in full unbond redeleg shares takerate rewards genesis power gov; do
  ./h.test -test.run TestDrive -test.coverprofile="$O/$f.out" -out "$O/o-$f" -family $f -n 6 -steps 100 -seed ${VERIF_SEED:-1} >/dev/null 2>&1 &
done; wait
i=0; for s in "$V"/schedules/*.json "$V"/known/*.json; do i=$((i+1)); ./h.test -test.run TestDrive -test.coverprofile="$O/s$i.out" -out "$O/o-s$i" -mode replay -in "$s" >/dev/null 2>&1 || true; done
rm -rf "$O"/o-* "$O/src"
python3 - "$O" <<'PY'
import glob,re,sys,collections,os
O=sys.argv[1]; blocks={}
for f in glob.glob(O+'/*.out'):
    for l in open(f):
        m=re.match(r'(.*):(\d+)\.(\d+),(\d+)\.(\d+) (\d+) (\d+)',l)
        if not m: continue
        k=(m.group(1),int(m.group(2)),int(m.group(4)),int(m.group(6))); blocks[k]=blocks.get(k,0)+int(m.group(7))
by=collections.defaultdict(lambda:[0,0]); unc=collections.defaultdict(list)
for (f,s,e,n),c in blocks.items():
    if '.pb.' in f or 'client/cli' in f or 'simulation' in f or 'mocks' in f: continue
    by[f][0]+=n
    if c: by[f][1]+=n
    else: unc[f].append((s,e))
pre='github.com/terra-money/alliance/'
for f,(t,c) in sorted(by.items()): print('%-60s %4d/%4d %3d%%'%(f.replace(pre,''),c,t,100*c//max(t,1)))
repo=os.environ.get('VERIF_REPO','/repo')
for f in sorted(unc):
    if '/keeper/' not in f and 'abci' not in f: continue
    src=open(repo+'/'+f.replace(pre,'')).read().split('\n')
    for s,e in sorted(unc[f]):
        t=' | '.join(x.strip() for x in src[s-1:min(e,s+1)])
        if re.search(r'err != nil|err = .*; err != nil', t) and 'return' in t: continue   # plain error propagation
        print('  %s:%d-%d  %s'%(f.replace(pre,''),s,e,t[:130]))
PY
echo "profiles in $O"
