import sys,os,glob,json,collections,concurrent.futures,re
sys.path.insert(0,'/verif/lib')
import checklib as L
d=sys.argv[1]
sd=L.spec_dir()
known=L.load_known()
files=sorted(glob.glob(d+'/**/*.ndjson',recursive=True))
def one(f):
    try:
        r=L.run_tlc(sd,f,timeout=3600)
    except Exception as e:
        return f,[],str(e)[-300:]
    bad=[v for v in r['viols'] if not L.attribute(v,known)]
    return f,bad,None
c=collections.Counter(); first={}
with concurrent.futures.ThreadPoolExecutor(max_workers=6) as ex:
    for f,bad,err in ex.map(one,files):
        if err: print('ERR',f,err)
        for v in bad:
            k=(v['prop'],re.sub(r'\d{3,}','N',v['msg'])[:110])
            c[k]+=1; first.setdefault(k,(os.path.basename(os.path.dirname(f)),v.get('trace'),v['i'],v['ev']))
print('files',len(files))
for k,n in sorted(c.items()): print(n,k,first[k])
