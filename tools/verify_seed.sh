#!/bin/bash
# verify_seed.sh <id> (WTP / SEEDP override the directory prefixes, e.g. WTP=/tmp/wt2- SEEDP=/tmp/seed2-) : confirm a seeded change in its scratch worktree /tmp/wt-<id> (patch in /tmp/seed-<id>/patch.diff, demo test in demo_test.go)
# 1) unchanged code + demo: demo passes   2) patched code: builds, existing suite passes, demo fails
set -u
ID=$1; WT=${WTP:-/tmp/wt-}$ID; SEED=${SEEDP:-/tmp/seed-}$ID
export GOFLAGS=-mod=mod GOPROXY=off GOSUMDB=off GOTOOLCHAIN=local
cd $WT || exit 2
git checkout -q -- . ; git clean -fdq x app custom
DEMO=x/alliance/keeper/tests/zz_seed_demo_test.go
cp $SEED/demo_test.go $DEMO
PKG=$(head -20 $DEMO | grep -m1 '^package' | awk '{print $2}')
TESTS=$(grep -o '^func Test[A-Za-z0-9_]*' $DEMO | sed 's/func //' | paste -sd'|')
echo "demo tests: $TESTS (package $PKG)"
go test -vet=off -count=1 -run "^($TESTS)\$" ./x/alliance/keeper/tests/ > /tmp/vs-$ID-a.log 2>&1; A=$?
echo "unchanged code, demo: exit $A (want 0)"
git apply $SEED/patch.diff || { echo "PATCH DOES NOT APPLY"; exit 2; }
go build ./... > /tmp/vs-$ID-b.log 2>&1; B=$?
echo "patched, build: exit $B (want 0)"
go test -vet=off -count=1 -run "^($TESTS)\$" ./x/alliance/keeper/tests/ > /tmp/vs-$ID-c.log 2>&1; C=$?
echo "patched, demo: exit $C (want non-zero)"
rm -f $DEMO
go test -vet=off -count=1 ./... > /tmp/vs-$ID-d.log 2>&1; D=$?
echo "patched, existing suite: exit $D (want 0)"
git checkout -q -- . ; git clean -fdq x app custom
if [ $A -eq 0 ] && [ $B -eq 0 ] && [ $C -ne 0 ] && [ $D -eq 0 ]; then echo "SEED $ID CONFIRMED"; else echo "SEED $ID NOT CONFIRMED"; fi
