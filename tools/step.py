#!/usr/bin/env python3
"""step.py <results-dir|file> <trace> <i> [keys...]  -- print pre/post of selected keys for one step"""
import sys,json,glob,os
src,name,i=sys.argv[1],sys.argv[2],int(sys.argv[3])
keys=sys.argv[4:] or ['assets','vals','dels','flag']
files=[src] if src.endswith('.ndjson') else glob.glob(os.path.join(src,'*','*.ndjson'))
def comp(k,v):
    if k=='assets': return [(a['a'],'T',a['total'],'S',a['vshares'],'w',a['weight'],'take',a['take'],'start',a['start']) for a in v]
    if k=='vals': return [(x['v'],'vs',[(c['a'],c['x']) for c in x['vshares']],'ds',[(c['a'],c['x']) for c in x['dshares']]) for x in v]
    if k=='dels': return [(d['d'],d['v'],d['a'],d['shares'],'bal',d['bal']) for d in v]
    if k=='env': return [(x['v'],x['status'],'J' if x['jailed'] else '','tok',x['tokens'],'dsh',x['dshares'],'mod',x['modShares'],x['pending']) for x in v['vals']]+[('totalBonded',v['totalBonded'])]
    return v
for f in files:
    cur=None; prev=None
    for line in open(f):
        r=json.loads(line)
        if r['ev']=='Init': cur=r.get('trace')
        if cur==name and r['i']==i:
            print('EVENT',r['ev'],{k:v for k,v in r['args'].items() if v not in ('',0,False,None,[])},r['res'])
            for k in keys:
                if k=='probes':
                    for p in r['probes']:
                        if not p['ok'] or p['kind'] in sys.argv: print('  probe',{a:b for a,b in p.items() if b not in ('',0,False,None,[],{})})
                    continue
                print('PRE ',k,comp(k,prev['post'][k]) if prev else None)
                print('POST',k,comp(k,r['post'][k]))
        if cur==name: prev=r
