"""Orchestration for bin/check (python3 standard library only)."""
import sys, os, json, time, hashlib, subprocess, fcntl, shutil, re, glob, collections, tempfile, concurrent.futures

ROOT = os.path.dirname(os.path.dirname(os.path.abspath(__file__)))
REPO = os.environ.get("VERIF_REPO", "/repo")
CACHE = os.environ.get("VERIF_CACHE", os.path.join(ROOT, ".cache"))
SPEC = os.path.join(ROOT, "spec")
HARNESS = os.path.join(ROOT, "harness")
TLA_JAR = "/opt/veriftools/tla/tla2tools.jar"
TLA_CP = TLA_JAR + ":/opt/veriftools/tla/CommunityModules-deps.jar"
NCPU = os.cpu_count() or 4

GOENV = dict(os.environ, GOFLAGS="-mod=mod", GOPROXY="off", GOSUMDB="off", GOTOOLCHAIN="local")

FAMILIES = ["unbond", "redeleg", "shares", "takerate", "rewards", "power", "gov", "genesis", "full"]
TIERS = {
    # n traces per shard, steps per trace, shards per family
    "quick": dict(n=5, steps=80, shards=1),
    "thorough": dict(n=8, steps=160, shards=5),
}

# coverage tags (emitted by AllianceProps!Covers) that make a step a non-trivial case for a property
PROP_TAGS = {
    "C01": ["Delegate", "Undelegate", "Redelegate", "payout", "take-rate-charge", "slash-meets-unbonding"],
    "C02": ["payout", "Undelegate", "slash-meets-unbonding"],
    "C03": ["Delegate", "Undelegate", "Redelegate", "slash", "take-rate-charge"],
    "C04": ["Delegate", "Undelegate", "Redelegate", "Claim"],
    "C05": ["probe-liveness"],
    "C06": ["slash"],
    "C07": ["slash-meets-unbonding", "slash-meets-redelegation"],
    "C08": ["slash"],
    "C09": ["take-rate-charge"],
    "C10": ["rebalance"],
    "C11": ["rebalance"],
    "C12": ["probe-claimall"],
    "C13": ["claim-with-entitlement"],
    "C14": ["weight-decay", "gov-accept"],
    "C15": ["Redelegate", "probe-redeleg"],
    "C16": ["gov-accept", "gov-reject"],
    "C17": ["endblock"],
    "C18": ["export-import"],
    "C19": ["replayed"],
    "C20": ["probe-queries"],
}


class MachineryError(Exception):
    pass


def log(*a):
    print(*a, file=sys.stderr, flush=True)


def sha(s):
    return hashlib.sha256(s if isinstance(s, bytes) else s.encode()).hexdigest()


def tree_hash():
    """content hash of everything in /repo that can influence the harness build"""
    h = hashlib.sha256()
    for base, dirs, files in os.walk(REPO):
        dirs[:] = sorted(d for d in dirs if d not in (".git", "node_modules", "docs", "scripts"))
        for f in sorted(files):
            if f.endswith(".go") or f in ("go.mod", "go.sum"):
                p = os.path.join(base, f)
                try:
                    with open(p, "rb") as fh:
                        h.update(p.encode() + b"\0" + hashlib.sha256(fh.read()).digest())
                except OSError:
                    pass
    # the harness sources are part of the key as well
    for f in sorted(glob.glob(os.path.join(HARNESS, "*.go")) + [os.path.join(HARNESS, "go.mod")]):
        with open(f, "rb") as fh:
            h.update(f.encode() + b"\0" + hashlib.sha256(fh.read()).digest())
    return h.hexdigest()[:16]


class Lock:
    def __init__(self, path):
        os.makedirs(os.path.dirname(path), exist_ok=True)
        self.path = path

    def __enter__(self):
        self.f = open(self.path, "w")
        fcntl.flock(self.f, fcntl.LOCK_EX)
        return self

    def __exit__(self, *a):
        fcntl.flock(self.f, fcntl.LOCK_UN)
        self.f.close()


def build_harness(th):
    d = os.path.join(CACHE, "tree-" + th)
    binp = os.path.join(d, "harness.test")
    with Lock(os.path.join(d, "build.lock")):
        if os.path.exists(binp):
            return binp
        t0 = time.time()
        src = os.path.join(d, "src")
        shutil.rmtree(src, ignore_errors=True)
        os.makedirs(src)
        for f in glob.glob(os.path.join(HARNESS, "*.go")):
            shutil.copy(f, src)
        gm = open(os.path.join(HARNESS, "go.mod")).read().replace("=> /repo", "=> " + REPO)
        open(os.path.join(src, "go.mod"), "w").write(gm)
        shutil.copy(os.path.join(REPO, "go.sum"), os.path.join(src, "go.sum"))
        r = subprocess.run(["go", "test", "-c", "-o", binp + ".tmp", "."], cwd=src, env=GOENV, capture_output=True, text=True)
        if r.returncode != 0:
            raise MachineryError("harness build failed against %s:\n%s" % (REPO, (r.stdout + r.stderr)[-4000:]))
        os.rename(binp + ".tmp", binp)
        shutil.rmtree(src, ignore_errors=True)
        log("built harness for tree %s in %.0fs" % (th, time.time() - t0))
        prune_cache(keep=d)
    return binp


def prune_cache(keep):
    """disk is limited: keep the three most recent tree caches"""
    trees = sorted(glob.glob(os.path.join(CACHE, "tree-*")), key=os.path.getmtime, reverse=True)
    for t in trees[3:]:
        if t != keep:
            shutil.rmtree(t, ignore_errors=True)


def spec_dir():
    """a scratch copy of spec/ with the compiled BigNum override (TLC litters its working directory)"""
    files = sorted(glob.glob(os.path.join(SPEC, "*.tla")) + glob.glob(os.path.join(SPEC, "*.cfg")) + glob.glob(os.path.join(SPEC, "*.java")))
    key = sha("".join(sha(open(f, "rb").read()) for f in files))[:16]
    d = os.path.join(CACHE, "spec-" + key)
    with Lock(os.path.join(CACHE, "spec.lock")):
        if not os.path.exists(os.path.join(d, "BigNum.class")):
            shutil.rmtree(d, ignore_errors=True)
            os.makedirs(d)
            for f in files:
                shutil.copy(f, d)
            r = subprocess.run(["javac", "-cp", TLA_JAR, "-d", d, os.path.join(d, "BigNum.java")], capture_output=True, text=True)
            if r.returncode != 0:
                raise MachineryError("javac BigNum failed: " + r.stderr)
            for old in sorted(glob.glob(os.path.join(CACHE, "spec-*")), key=os.path.getmtime, reverse=True)[3:]:
                shutil.rmtree(old, ignore_errors=True)
    return d


def run_harness(binp, outdir, args, timeout=3000):
    os.makedirs(outdir, exist_ok=True)
    cmd = [binp, "-test.run", "TestDrive", "-test.timeout", "60m", "-out", outdir] + args
    r = subprocess.run(cmd, capture_output=True, text=True, timeout=timeout, cwd=outdir)
    if r.returncode != 0:
        raise MachineryError("harness run failed (%s):\n%s" % (" ".join(args), (r.stdout + r.stderr)[-3000:]))


LINE = re.compile(r'^"(VIOL|DRIFT|COVER|STAT) (.*)"$')


def run_tlc(sd, trace_file, module="MCTrace", timeout=1800):
    """validate one ndjson trace file; returns dict(viols, drifts, covers, states, ok)"""
    md = tempfile.mkdtemp(prefix="tlcmd-")
    try:
        env = dict(os.environ, TRACE=trace_file)
        cmd = ["java", "-XX:+UseParallelGC", "-Xmx3g", "-Xss64m", "-cp", TLA_CP, "tlc2.TLC", "-workers", "1", "-metadir", md,
               "-config", module + ".cfg", module + ".tla"]
        t0 = time.time()
        r = subprocess.run(cmd, cwd=sd, env=env, capture_output=True, text=True, timeout=timeout)
        out = r.stdout
        res = dict(viols=[], drifts=[], covers=[], states=0, wall=time.time() - t0, file=trace_file)
        for line in out.splitlines():
            m = LINE.match(line.strip())
            if m:
                try:
                    j = json.loads(json.loads('"' + m.group(2) + '"'))
                except Exception:
                    continue
                {"VIOL": res["viols"], "DRIFT": res["drifts"], "COVER": res["covers"], "STAT": res.setdefault("stats", [])}[m.group(1)].append(j)
            m2 = re.match(r"^(\d+) states generated, (\d+) distinct states found", line)
            if m2:
                res["states"] = int(m2.group(2))
        if "Model checking completed. No error has been found." not in out:
            tail = "\n".join(l for l in out.splitlines() if not LINE.match(l.strip()))[-3000:]
            raise MachineryError("TLC did not complete on %s:\n%s\n%s" % (trace_file, tail, r.stderr[-1000:]))
        return res
    finally:
        shutil.rmtree(md, ignore_errors=True)


def trace_set(th, tier, seed):
    """generate (once per tree/tier/seed) the traces of every family and validate them with TLC"""
    binp = build_harness(th)
    sd = spec_dir()
    libkey = sha("".join(sha(open(f, "rb").read()) for f in sorted(glob.glob(os.path.join(ROOT, "lib", "*.py")) + glob.glob(os.path.join(ROOT, "known", "*.json")) + glob.glob(os.path.join(ROOT, "schedules", "*.json")))))[:8]
    speckey = os.path.basename(sd) + "-" + libkey
    d = os.path.join(CACHE, "tree-" + th, "traces-%s-%d-%s" % (tier, seed, speckey))
    done = os.path.join(d, "results.json")
    with Lock(os.path.join(CACHE, "tree-" + th, "traces-%s-%d.lock" % (tier, seed))):
        if os.path.exists(done):
            return json.load(open(done)), d
        shutil.rmtree(d, ignore_errors=True)
        os.makedirs(d)
        cfg = TIERS[tier]
        jobs = []
        for fam in FAMILIES:
            for sh in range(cfg["shards"]):
                jobs.append((fam, sh))

        def one(job):
            fam, sh = job
            out = os.path.join(d, fam)
            n, steps = cfg["n"], cfg["steps"]
            if fam == "rewards":
                n, steps = n + 4, steps + 40
            if fam in ("takerate", "genesis"):
                n = n + 3
            run_harness(binp, out, ["-mode", "random", "-family", fam, "-seed", str(seed), "-shard", str(sh), "-n", str(n), "-steps", str(steps)])
            tf = os.path.join(out, "%s-%d-%d.ndjson" % (fam, seed, sh))
            res = run_tlc(sd, tf)
            res["family"] = fam
            res["sched"] = os.path.join(out, "%s-%d-%d.sched.json" % (fam, seed, sh))
            res["records"] = sum(1 for _ in open(tf))
            return res

        def det(job):
            fam, k = job
            out = os.path.join(d, "det-" + fam)
            n, steps = (2, 60) if tier == "quick" else (6, 120)
            run_harness(binp, out, ["-mode", "random", "-family", fam, "-seed", str(seed + 7919), "-n", str(n), "-steps", str(steps), "-det", str(k)])
            tf = os.path.join(out, "%s-%d-0.ndjson" % (fam, seed + 7919))
            res = run_tlc(sd, tf)
            res["family"] = "det:" + fam
            res["sched"] = os.path.join(out, "%s-%d-0.sched.json" % (fam, seed + 7919))
            res["records"] = sum(1 for _ in open(tf))
            return res

        t0 = time.time()
        results = []
        k = 3 if tier == "quick" else 8
        with concurrent.futures.ThreadPoolExecutor(max_workers=max(2, NCPU - 2)) as ex:
            futs = [ex.submit(one, j) for j in jobs] + [ex.submit(det, (f, k)) for f in ("full", "rewards", "redeleg", "gov", "power")]
            for f in futs:
                results.append(f.result())
        extra = extra_runs(binp, sd, d, tier, seed)
        results.extend(extra)
        results.extend(tlc_schedules(binp, sd, d, tier, seed))
        json.dump(results, open(done, "w"))
        json.dump(dict(wall_s=round(time.time() - t0, 1)), open(os.path.join(d, "meta.json"), "w"))
        log("generated and validated %d trace files (%d records) in %.0fs" % (len(results), sum(r["records"] for r in results), time.time() - t0))
        return results, d


def extra_runs(binp, sd, d, tier, seed):
    """schedules that are not random: known-finding witnesses and regression schedules under /verif/known and /verif/schedules"""
    out = []
    files = sorted(glob.glob(os.path.join(ROOT, "known", "*.json")) + glob.glob(os.path.join(ROOT, "schedules", "*.json")))
    for i, f in enumerate(files):
        o = os.path.join(d, "fixed-%d" % i)
        run_harness(binp, o, ["-mode", "replay", "-in", f, "-shard", str(i)])
        tf = os.path.join(o, "replay-%d.ndjson" % i)
        res = run_tlc(sd, tf)
        res["family"] = "fixed:" + os.path.basename(f)
        res["sched"] = f
        res["records"] = sum(1 for _ in open(tf))
        out.append(res)
    return out


def tlc_schedules(binp, sd, d, tier, seed):
    """behaviours of the closed model (TLC -simulate) replayed on the real keeper and validated like any other trace"""
    import mc
    n = 6 if tier == "quick" else 40
    fams = [f for f in mc.families() if os.path.exists(os.path.join(sd, "MC_%s_sim.cfg" % f))]

    def one(fam):
        scheds = mc.simulate(sd, fam, n, seed)
        if not scheds:
            return None
        o = os.path.join(d, "tlcsim-" + fam)
        os.makedirs(o, exist_ok=True)
        sf = os.path.join(o, "sched.json")
        json.dump(scheds, open(sf, "w"))
        run_harness(binp, o, ["-mode", "replay", "-in", sf])
        tf = os.path.join(o, "replay-0.ndjson")
        res = run_tlc(sd, tf)
        res["family"] = "tlcsim:" + fam
        res["sched"] = sf
        res["records"] = sum(1 for _ in open(tf))
        return res

    with concurrent.futures.ThreadPoolExecutor(max_workers=8) as ex:
        return [r for r in ex.map(one, fams) if r]


def load_known():
    p = os.path.join(ROOT, "known_findings.json")
    if not os.path.exists(p):
        return []
    return [k for k in json.load(open(p)).get("findings", []) if k.get("status", "open") == "open"]


def attribute(v, known):
    """a violation is explained by a listed finding iff the specification's root-cause operator named that finding
    (field kf of the VIOL record, computed in KnownFindings.tla) and the finding is listed for that property"""
    kf = v.get("kf", "")
    for k in known:
        if k["id"] == kf and v["prop"] in k["properties"]:
            return k
    return None


def schedule_for(res, trace_name, upto):
    scheds = json.load(open(res["sched"]))
    if isinstance(scheds, dict):
        scheds = [scheds]
    for s in scheds:
        if s.get("name") == trace_name or len(scheds) == 1:
            s = dict(s)
            s["events"] = s["events"][:upto]
            return s
    return None


def write_replay(pid, v, res):
    os.makedirs(os.path.join(ROOT, "replays"), exist_ok=True)
    s = schedule_for(res, v["trace"], v["i"])
    body = dict(property=pid, message=v["msg"], failing_step=v["i"], event=v["ev"], trace=v["trace"], schedule=s)
    name = "%s-%s.json" % (pid, sha(json.dumps(body, sort_keys=True))[:10])
    p = os.path.join(ROOT, "replays", name)
    json.dump(body, open(p, "w"), indent=1)
    return p


def check(pid, tier, seed):
    t0 = time.time()
    th = tree_hash()
    results, d = trace_set(th, tier, seed)
    gen_wall = 0.0
    if time.time() - t0 < 5:      # served from the cache: report what producing the shared trace set cost
        try:
            gen_wall = json.load(open(os.path.join(d, "meta.json")))["wall_s"]
        except Exception:
            pass
    known = load_known()
    viols, kfs = [], collections.OrderedDict()
    states = transitions = traces = 0
    nontrivial = set()
    evaluations = 0
    drift = collections.Counter()
    samples = []
    tags = set(PROP_TAGS.get(pid, []))
    for res in results:
        states += res["states"]
        transitions += max(0, res["states"] - 1)
        evaluations += res["records"]
        names = set()
        for c in res["covers"]:
            names.add(c["trace"])
            if tags & set(c["tags"]):
                nontrivial.add((c["trace"], c["i"]))
        traces += len({c["trace"] for c in res["covers"]}) or 1
        for dr in res["drifts"]:
            drift[dr["ev"] + ":" + ",".join(dr["fields"])] += 1
        for v in res["viols"]:
            if v["prop"] != pid:
                continue
            k = attribute(v, known)
            if k:
                kfs.setdefault(k["id"], (k, v))
            else:
                viols.append((v, res))
        if len(samples) < 3:
            s = schedule_for(res, None, 12) if False else None
            try:
                sc = json.load(open(res["sched"]))
                sc = sc[0] if isinstance(sc, list) else sc
                samples.append(dict(trace=sc.get("name"), family=res["family"], first_events=[compact(e) for e in sc["events"][:12]]))
            except Exception:
                pass
    mc = model_check(pid, tier)
    for v, r, sched in mc.pop("reproduced", []):
        viols.append((v, r))
    mc.pop("counterexamples", None)
    rc = 0
    for kid, (k, v) in kfs.items():
        print("KNOWN-FINDING: property=%s %s %s (e.g. %s step %d: %s)" % (pid, kid, k["title"], v["trace"], v["i"], v["msg"][:160]))
    seen = set()
    for v, res in viols:
        key = re.sub(r"[0-9]+", "N", v["msg"])[:80]
        if key in seen:
            continue
        seen.add(key)
        p = write_replay(pid, v, res)
        print("VIOLATION property=%s replay=%s" % (pid, p))
        print("  %s step %d (%s): %s" % (v["trace"], v["i"], v["ev"], v["msg"][:300]))
        rc = 1
    ev = dict(
        property_id=pid, tier=tier, seed=seed, level="model_checking" if pid != "C19" else "exploration",
        coverage=dict(
            states=states + mc.get("states", 0), transitions=transitions + mc.get("transitions", 0),
            traces_validated_against_impl=traces,
            evaluations=evaluations, distinct_nontrivial=len(nontrivial),
            rule="every recorded step of every family's seeded random histories (real keeper, real x/staking, x/distribution, x/bank) is judged by the property "
                 "operators of spec/AllianceProps.tla under TLC; a case is non-trivial for %s when the step carries one of the coverage tags %s "
                 "(distinct = distinct (trace, step))" % (pid, sorted(tags)),
            samples=samples,
            closed_model=mc,
            drift=dict(drift),
            known_findings_seen=sorted(kfs.keys()),
            checker_cmd="java -cp tla2tools.jar tlc2.TLC -workers 1 -config MCTrace.cfg MCTrace.tla (TRACE=<file>), one JVM per trace file",
            families=FAMILIES, tree=th,
            exhaustive=False,
        ),
        assumptions=[
            "the projection in harness/project.go reads the module's stores faithfully (exported iterators and key parsers)",
            "x/staking, x/distribution and x/bank are the real keepers of the pinned SDK; their internals are environment",
            "BigNum.java implements exact integer arithmetic (java.math.BigInteger)",
        ],
        wall_s=round(time.time() - t0 + gen_wall, 2), violations=len(seen),
    )
    os.makedirs(os.path.join(ROOT, "evidence"), exist_ok=True)
    json.dump(ev, open(os.path.join(ROOT, "evidence", pid + ".json"), "w"), indent=1)
    if rc == 0:
        print("OK property=%s tier=%s seed=%d states=%d traces=%d nontrivial=%d known=%s wall=%.0fs" % (
            pid, tier, seed, ev["coverage"]["states"], traces, len(nontrivial), ",".join(kfs.keys()) or "-", time.time() - t0))
    return rc


def compact(e):
    return {k: v for k, v in e.items() if v not in ("", 0, False, None, [])}


def model_check(pid, tier):
    """closed-model run for the property's families (spec/MC_*.tla).  A counterexample of the model is not a verdict:
    it is replayed on the real keeper; only a property failure of the recorded real states counts."""
    import mc
    sd = spec_dir()
    res = mc.run(pid, tier, sd)
    for ce in res.get("counterexamples", []):
        if not ce.get("dump"):
            raise MachineryError("closed model of family %s failed without a counterexample" % ce["family"])
        sched = mc.counterexample_schedule(ce["family"], ce["dump"])
        th = tree_hash()
        binp = build_harness(th)
        tmp = tempfile.mkdtemp(prefix="ce-", dir=CACHE)
        try:
            sf = os.path.join(tmp, "s.json")
            json.dump([sched], open(sf, "w"))
            run_harness(binp, tmp, ["-mode", "replay", "-in", sf])
            r = run_tlc(sd, os.path.join(tmp, "replay-0.ndjson"))
            r["sched"] = sf
            bad = [v for v in r["viols"] if v["prop"] == pid and not attribute(v, load_known())]
            if not bad:
                raise MachineryError("the closed model of family %s has a counterexample that does not reproduce on the code (model error): %s" % (ce["family"], ce["dump"]))
            res.setdefault("reproduced", []).append((bad[0], r, sched))
        finally:
            pass
    return res


def replay(path):
    body = json.load(open(path))
    pid = body["property"]
    th = tree_hash()
    binp = build_harness(th)
    sd = spec_dir()
    tmp = tempfile.mkdtemp(prefix="replay-", dir=CACHE)
    try:
        sf = os.path.join(tmp, "s.json")
        json.dump([body["schedule"]], open(sf, "w"))
        run_harness(binp, tmp, ["-mode", "replay", "-in", sf])
        res = run_tlc(sd, os.path.join(tmp, "replay-0.ndjson"))
        known = load_known()
        bad = [v for v in res["viols"] if v["prop"] == pid and not attribute(v, known)]
        for v in bad[:10]:
            print("step %d (%s): %s" % (v["i"], v["ev"], v["msg"][:300]))
        if bad:
            print("VIOLATION property=%s replay=%s" % (pid, path))
            return 1
        print("replay of %s: property %s holds on the current tree" % (path, pid))
        return 0
    finally:
        shutil.rmtree(tmp, ignore_errors=True)


def setup():
    os.makedirs(CACHE, exist_ok=True)
    sd = spec_dir()
    # smoke test: the override loads and the trace specification parses
    r = subprocess.run(["java", "-cp", TLA_CP, "tla2sany.SANY", "MCTrace.tla"], cwd=sd, capture_output=True, text=True)
    if "Semantic errors" in r.stdout or r.returncode != 0:
        print(r.stdout[-2000:])
        return 2
    th = tree_hash()
    build_harness(th)
    import mc
    t0 = time.time()
    rs = mc.precompute("quick")
    print("closed models (quick bounds): %d families, %d distinct states, %.0fs" % (len(rs), sum(r["states"] for r in rs), time.time() - t0))
    print("setup ok: spec %s, harness for tree %s" % (os.path.basename(sd), th))
    return 0
