"""Closed-model runs (spec/MC_<family>.tla): exhaustive TLC within the family's bounds, and TLC -simulate to produce
schedules that are replayed on the real keeper.  Results depend only on the specification, so they are cached per
spec key; a counterexample is never a verdict by itself: it is converted to a schedule and replayed on the code."""
import os, re, json, time, subprocess, tempfile, shutil, glob, hashlib, concurrent.futures
import checklib as L

SPECDIR = os.path.join(L.ROOT, "spec")


def families():
    out = {}
    for f in sorted(glob.glob(os.path.join(SPECDIR, "MC_*.json"))):
        j = json.load(open(f))
        out[j["family"]] = j
    return out


def families_for(pid):
    return [f for f, j in families().items() if pid in j["props"]]


def tlc(sd, module, cfg, workers, extra=(), timeout=3600, dump=None):
    md = tempfile.mkdtemp(prefix="tlcmc-")
    try:
        cmd = ["java", "-XX:+UseParallelGC", "-Xmx6g", "-Xss64m", "-cp", L.TLA_CP, "tlc2.TLC", "-workers", str(workers), "-metadir", md, "-config", cfg]
        if dump:
            cmd += ["-dumpTrace", "json", dump]
        cmd += list(extra) + [module]
        t0 = time.time()
        r = subprocess.run(cmd, cwd=sd, capture_output=True, text=True, timeout=timeout)
        return r.stdout, time.time() - t0
    finally:
        shutil.rmtree(md, ignore_errors=True)


def exhaustive(sd, fam, tier, workers=2):
    """returns dict(states, transitions, ok, depth, wall, counterexample?)"""
    cfg = "MC_%s_quick.cfg" % fam if tier == "quick" else "MC_%s.cfg" % fam
    cdir = os.path.join(L.CACHE, "mc-" + os.path.basename(sd))
    os.makedirs(cdir, exist_ok=True)
    cf = os.path.join(cdir, cfg + ".json")
    with L.Lock(os.path.join(cdir, cfg + ".lock")):
        if os.path.exists(cf):
            return json.load(open(cf))
        dump = os.path.join(cdir, cfg + ".trace.json")
        out, wall = tlc(sd, "MC_%s.tla" % fam, cfg, workers, dump=dump, timeout=7200)
        res = dict(family=fam, cfg=cfg, wall=round(wall, 1), ok=False, states=0, transitions=0, depth=0)
        m = re.search(r"(\d+) states generated, (\d+) distinct states found, 0 states left on queue", out)
        if m:
            res["transitions"], res["states"] = int(m.group(1)), int(m.group(2))
        m = re.search(r"The depth of the complete state graph search is (\d+)", out)
        if m:
            res["depth"] = int(m.group(1))
        if "Model checking completed. No error has been found." in out:
            res["ok"] = True
        elif "Invariant NoViolation is violated" in out and os.path.exists(dump):
            res["counterexample"] = dump
            m = re.search(r"(\d+) states generated, (\d+) distinct states found", out)
            if m:
                res["transitions"], res["states"] = int(m.group(1)), int(m.group(2))
        else:
            tail = "\n".join(l for l in out.splitlines() if not l.startswith(("Parsing", "Semantic", "Linting", "Loading")))[-3000:]
            raise L.MachineryError("TLC failed on %s:\n%s" % (cfg, tail))
        json.dump(res, open(cf, "w"))
        return res


def event_to_harness(e):
    ev = dict(ev=e["ev"])
    for k in ("d", "v", "src", "dst", "a", "x", "f", "signer", "weight", "wmin", "wmax", "take", "rate"):
        if e.get(k) not in (None, ""):
            ev[k] = e[k]
    for k in ("dt", "chgInt", "delay", "interval", "last"):
        if e.get(k) not in (None, 0):
            ev[k] = e[k]
    if e.get("legacy"):
        ev["legacy"] = True
    coins = e.get("coins")
    if isinstance(coins, dict) and coins:
        ev["coins"] = [dict(a=k, x=v) for k, v in sorted(coins.items())]
    return ev


def hist_to_schedule(fam, hist, name):
    fj = families()[fam]
    events = []
    for e in hist:
        he = event_to_harness(e)
        if he["ev"] == "EndBlock":
            events.append(dict(ev="StakingEndBlock"))
        if he["ev"] in ("Unbond", "Rebond", "Remove", "NativeDelegate", "NativeUndelegate"):
            continue  # environment steps of the simplified staking model have no exact counterpart on the real x/staking
        events.append(he)
    return dict(name=name, family="tlc:" + fam, cfg=fj["cfg"], events=events, probes=["liveness", "claimAll", "queries", "redeleg", "supply"], every=1)


def counterexample_schedule(fam, dump):
    j = json.load(open(dump))
    if isinstance(j, dict) and "counterexample" in j:
        j = j["counterexample"]
    states = j.get("state") or j.get("states") if isinstance(j, dict) else j
    last = states[-1]
    if isinstance(last, list):
        last = last[1]
    hist = last["hist"]
    return hist_to_schedule(fam, hist, "tlc-counterexample/" + fam)


def simulate(sd, fam, n, seed):
    """TLC -simulate on the closed model; returns a list of schedules (cached per spec key, family, n, seed)"""
    fj = families()[fam]
    cfg = "MC_%s_sim.cfg" % fam
    if not os.path.exists(os.path.join(sd, cfg)):
        return []
    cdir = os.path.join(L.CACHE, "mc-" + os.path.basename(sd))
    os.makedirs(cdir, exist_ok=True)
    cf = os.path.join(cdir, "sim-%s-%d-%d.json" % (fam, n, seed))
    with L.Lock(cf + ".lock"):
        if os.path.exists(cf):
            return json.load(open(cf))
        depth = int(re.search(r"MaxDepth = (\d+)", open(os.path.join(sd, cfg)).read()).group(1))
        out, wall = tlc(sd, "MC_%s.tla" % fam, cfg, 1, extra=["-simulate", "num=%d" % n, "-depth", str(depth + 1), "-seed", str(seed)], timeout=1800)
        scheds = []
        seen = set()
        for line in out.splitlines():
            line = line.strip()
            if line.startswith('"SCHED '):
                try:
                    hist = json.loads(json.loads(line)[6:])
                except Exception:
                    continue
                key = json.dumps(hist, sort_keys=True)
                if key in seen or len(scheds) >= n:
                    continue
                seen.add(key)
                scheds.append(hist_to_schedule(fam, hist, "tlcsim/%s/seed%d/%d" % (fam, seed, len(scheds))))
        if "Invariant NoViolation is violated" in out:
            # the behaviour that violates is replayed like any other; keep what was printed so far
            pass
        elif not scheds:
            tail = "\n".join(l for l in out.splitlines() if not l.startswith(("Parsing", "Semantic", "Linting", "Loading")))[-2000:]
            raise L.MachineryError("TLC -simulate produced no schedule for %s:\n%s" % (fam, tail))
        json.dump(scheds, open(cf, "w"))
        return scheds


def precompute(tier="quick"):
    """run every family's exhaustive configuration (used by setup so that the quick checks find the results cached)"""
    sd = L.spec_dir()
    fams = list(families())
    with concurrent.futures.ThreadPoolExecutor(max_workers=8) as ex:
        return list(ex.map(lambda f: exhaustive(sd, f, tier), fams))


def run(pid, tier, sd):
    fams = families_for(pid)
    out = dict(families={}, states=0, transitions=0, exhaustive_within_bounds=True)
    workers = 2 if tier == "quick" else max(2, L.NCPU // max(1, len(fams)))
    with concurrent.futures.ThreadPoolExecutor(max_workers=max(1, len(fams))) as ex:
        results = list(ex.map(lambda f: exhaustive(sd, f, tier, workers), fams))
    for r in results:
        out["families"][r["family"]] = dict(cfg=r["cfg"], distinct_states=r["states"], transitions=r["transitions"], depth=r["depth"], ok=r["ok"], wall_s=r["wall"])
        out["states"] += r["states"]
        out["transitions"] += r["transitions"]
        if not r["ok"]:
            out["exhaustive_within_bounds"] = False
            out.setdefault("counterexamples", []).append(dict(family=r["family"], dump=r.get("counterexample")))
    return out
